#!/bin/sh
# usage: try_patch.sh <patch.diff> <PROP> [PROP...]
# applies the patch to /repo's working tree, runs the quick checks, restores the tree.
# prints "CAUGHT <prop> <n keys>" or "MISSED <prop>"
P=$1; shift
cd /repo || exit 2
git diff --quiet || { echo "/repo has local changes"; exit 2; }
git apply "$P" || { echo "patch does not apply"; exit 2; }
trap 'git -C /repo checkout -- . ' EXIT INT TERM
for prop in "$@"; do
  out=$(cd /verif && VERIF_SEED=${VERIF_SEED:-1} bin/check $prop --tier quick 2>&1)
  rc=$?
  n=$(echo "$out" | grep -c '^VIOLATION')
  if [ $n -gt 0 ]; then echo "CAUGHT $prop rc=$rc keys=$n"; echo "$out" | grep -A1 '^VIOLATION' | grep 'key=' | cut -c1-220 | head -4
  else echo "MISSED $prop rc=$rc"; echo "$out" | tail -3 | cut -c1-200; fi
done
