#!/bin/sh
# usage: rerun_all.sh [seed-id-prefix] [skip-first-N]
# Applies every stored seeded change to /repo's working tree in turn, runs the quick check recorded as catching it
# (meta.json caught_by[0]), restores the tree.  Prints one line per change; exit 1 if any change is no longer caught.
# /repo must be clean and no other check may be running (the checks rebuild from the working tree).
miss=0; n=0
for d in /verif/seeded/${1}*/; do
  n=$((n+1)); [ $n -le ${2:-0} ] && continue
  id=$(basename $d)
  prop=$(/usr/bin/python3 -c "import json;m=(json.load(open('$d/meta.json'))['caught_by'] or ['-']);print(m[0])" 2>/dev/null)
  [ "$prop" = "-" ] && { echo "$id: recorded as not caught (outside the fault model)"; continue; }
  r=$(sh /verif/selftest/try_patch.sh $d/patch.diff $prop 2>&1 | grep -E "^(CAUGHT|MISSED|/repo has|patch does not)" | head -1)
  echo "$id: $r"
  case "$r" in CAUGHT*) ;; *) miss=$((miss+1));; esac
done
echo "not caught: $miss"
[ $miss -eq 0 ]
