#!/bin/sh
# usage: confirm_cmd.sh <worktree> <k> '<shell command that builds and runs the demonstration from the worktree root>'
# like confirm.sh, but the demonstration is built and run by the given command (the agent's README line)
W=$1; K=$2; CMD=$3
cd $W || exit 2
git checkout -q -- .; git apply OUT/patch$K.diff || { echo APPLY-FAILED; exit 2; }
cmake --build _b >/dev/null 2>&1 || { echo BUILD-FAILED-WITH-PATCH; git checkout -q -- .; exit 1; }
fails=$(ctest --test-dir _b -j8 --timeout 900 2>&1 | grep -E "^\s+[0-9]+ - " | grep -v -E "test_live_validation|test_dynamic_groups" | wc -l)
( eval "$CMD" ) >/dev/null 2>&1; with=$?
git checkout -q -- .; cmake --build _b >/dev/null 2>&1
( eval "$CMD" ) >/dev/null 2>&1; without=$?
echo "$W patch$K: suite unexpected failures=$fails demo with=$with without=$without"
if [ "$fails" = 0 ] && [ $with -ne 0 ] && [ $without -eq 0 ]; then echo CONFIRMED; else echo NOT-CONFIRMED; fi
