#!/bin/sh
# usage: confirm.sh <worktree> <k>
# Confirms an externally written change: (1) with the patch the library builds and the repository's own
# suite passes except the two offline-only tests, (2) the demonstration fails with the patch, (3) passes without.
W=$1; K=$2
cd $W || exit 2
git checkout -q -- . ; git apply OUT/patch$K.diff || { echo "APPLY-FAILED"; exit 2; }
[ -d _b ] || cmake -G Ninja -S $W -B $W/_b -DCMAKE_BUILD_TYPE=RelWithDebInfo -DUNIT_TESTING=ON -DCMAKE_C_FLAGS=-Wno-error >/dev/null 2>&1
cmake --build _b >/dev/null 2>&1 || { echo "BUILD-FAILED-WITH-PATCH"; git checkout -q -- .; exit 1; }
fails=$(ctest --test-dir _b -j8 --timeout 900 2>&1 | grep -E "^\s+[0-9]+ - " | grep -v -E "test_live_validation|test_dynamic_groups" | wc -l)
echo "suite: unexpected failures with patch = $fails"
builddemo() {
  gcc -g -w -I$W -I$W/OUT $W/OUT/demo$K.c $W/_b/librtrlib_static.a -lpthread -lcrypto -lssh -lrt -lm -o $W/OUT/demo$K.bin 2>/dev/null ||
  gcc -g -w -I$W -I$W/OUT $W/OUT/demo$K.c -L$W/_b -lrtr -lpthread -lcrypto -Wl,-rpath,$W/_b -o $W/OUT/demo$K.bin 2>/dev/null ||
  gcc -g -w -I$W -I$W/OUT $W/OUT/demo$K.c $W/_b/librtrlib_static.a -lpthread -lcrypto -lssh -lrt -lm -Wl,--wrap=lrtr_get_monotonic_time -o $W/OUT/demo$K.bin
}
builddemo || echo "DEMO-BUILD-FAILED"
( cd $W && timeout 300 OUT/demo$K.bin >/dev/null 2>&1 ); with=$?
git checkout -q -- . ; cmake --build _b >/dev/null 2>&1
builddemo
( cd $W && timeout 300 OUT/demo$K.bin >/dev/null 2>&1 ); without=$?
echo "demo exit: with patch = $with, without patch = $without"
if [ "$fails" = 0 ] && [ $with -ne 0 ] && [ $without -eq 0 ]; then echo "CONFIRMED"; else echo "NOT-CONFIRMED"; fi
