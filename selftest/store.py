#!/usr/bin/python3
"""store.py <seed-id> <property> <worktree> <k> <caught_by(comma)> <needs...>  -> /verif/seeded/<seed-id>/"""
import json, os, shutil, sys, glob
sid, prop, wt, k, caught = sys.argv[1:6]
needs = " ".join(sys.argv[6:])
d = os.path.join("/verif/seeded", sid)
os.makedirs(d, exist_ok=True)
shutil.copy(os.path.join(wt, "OUT", "patch%s.diff" % k), os.path.join(d, "patch.diff"))
for f in glob.glob(os.path.join(wt, "OUT", "*")):
    b = os.path.basename(f)
    if b.startswith("demo%s." % k) and not b.endswith(".bin") or b.endswith(".h") or b in ("README.md", "run_demo.sh", "run.sh"):
        if os.path.isfile(f) and os.path.getsize(f) < 200000:
            shutil.copy(f, os.path.join(d, b))
meta = dict(id=sid, breaks_property=prop, needs_to_manifest=needs,
            written_by="independent sub-agent given only the property text and a scratch worktree",
            confirmed=["applies to the tree under test", "library builds; repository suite passes except the two offline-only tests (selftest/confirm.sh)",
                       "demonstration fails with the change and passes without it (selftest/confirm.sh or the agent's run script)"],
            checks_run="selftest/try_patch.sh patch.diff " + " ".join(caught.split(",")),
            caught_by=caught.split(","))
json.dump(meta, open(os.path.join(d, "meta.json"), "w"), indent=1)
print("stored", d)
