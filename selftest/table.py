#!/usr/bin/python3
"""table.py -> markdown table of /verif/seeded/*/meta.json (the matrix in DESIGN.md 7.5)"""
import glob, json, os
print("| seeded change | property | needs | caught by (quick tier) |\n|---|---|---|---|")
for f in sorted(glob.glob(os.path.join(os.path.dirname(os.path.abspath(__file__)), "..", "seeded", "*", "meta.json"))):
    m = json.load(open(f))
    print("| `%s` | %s | %s | %s |" % (m["id"], m["breaks_property"], m["needs_to_manifest"], ", ".join(m["caught_by"]) or "**not caught** (outside the fault model)"))
