"""Pure-Python ECDSA P-256 / SHA-256 verifier (no OpenSSL, no hashlib): a second opinion on a sample of
the (octet sequence, public key, signature, verdict) tuples the bgpmon oracle judged with EVP."""

P = 0xFFFFFFFF00000001000000000000000000000000FFFFFFFFFFFFFFFFFFFFFFFF
A = P - 3
B = 0x5AC635D8AA3A93E7B3EBBD55769886BC651D06B0CC53B0F63BCE3C3E27D2604B
GX = 0x6B17D1F2E12C4247F8BCE6E563A440F277037D812DEB33A0F4A13945D898C296
GY = 0x4FE342E2FE1A7F9B8EE7EB4A7C0F9E162BCE33576B315ECECBB6406837BF51F5
N = 0xFFFFFFFF00000000FFFFFFFFFFFFFFFFBCE6FAADA7179E84F3B9CAC2FC632551

_K = [
    0x428a2f98, 0x71374491, 0xb5c0fbcf, 0xe9b5dba5, 0x3956c25b, 0x59f111f1, 0x923f82a4, 0xab1c5ed5, 0xd807aa98, 0x12835b01,
    0x243185be, 0x550c7dc3, 0x72be5d74, 0x80deb1fe, 0x9bdc06a7, 0xc19bf174, 0xe49b69c1, 0xefbe4786, 0x0fc19dc6, 0x240ca1cc,
    0x2de92c6f, 0x4a7484aa, 0x5cb0a9dc, 0x76f988da, 0x983e5152, 0xa831c66d, 0xb00327c8, 0xbf597fc7, 0xc6e00bf3, 0xd5a79147,
    0x06ca6351, 0x14292967, 0x27b70a85, 0x2e1b2138, 0x4d2c6dfc, 0x53380d13, 0x650a7354, 0x766a0abb, 0x81c2c92e, 0x92722c85,
    0xa2bfe8a1, 0xa81a664b, 0xc24b8b70, 0xc76c51a3, 0xd192e819, 0xd6990624, 0xf40e3585, 0x106aa070, 0x19a4c116, 0x1e376c08,
    0x2748774c, 0x34b0bcb5, 0x391c0cb3, 0x4ed8aa4a, 0x5b9cca4f, 0x682e6ff3, 0x748f82ee, 0x78a5636f, 0x84c87814, 0x8cc70208,
    0x90befffa, 0xa4506ceb, 0xbef9a3f7, 0xc67178f2]


def sha256(msg: bytes) -> bytes:
    h = [0x6a09e667, 0xbb67ae85, 0x3c6ef372, 0xa54ff53a, 0x510e527f, 0x9b05688c, 0x1f83d9ab, 0x5be0cd19]
    ml = len(msg) * 8
    msg = msg + b"\x80" + b"\x00" * ((55 - len(msg)) % 64) + ml.to_bytes(8, "big")
    M = 0xFFFFFFFF

    def rr(x, n):
        return ((x >> n) | (x << (32 - n))) & M
    for off in range(0, len(msg), 64):
        w = [int.from_bytes(msg[off + 4 * i:off + 4 * i + 4], "big") for i in range(16)]
        for i in range(16, 64):
            s0 = rr(w[i - 15], 7) ^ rr(w[i - 15], 18) ^ (w[i - 15] >> 3)
            s1 = rr(w[i - 2], 17) ^ rr(w[i - 2], 19) ^ (w[i - 2] >> 10)
            w.append((w[i - 16] + s0 + w[i - 7] + s1) & M)
        a, b, c, d, e, f, g, hh = h
        for i in range(64):
            S1 = rr(e, 6) ^ rr(e, 11) ^ rr(e, 25)
            ch = (e & f) ^ (~e & M & g)
            t1 = (hh + S1 + ch + _K[i] + w[i]) & M
            S0 = rr(a, 2) ^ rr(a, 13) ^ rr(a, 22)
            mj = (a & b) ^ (a & c) ^ (b & c)
            t2 = (S0 + mj) & M
            hh, g, f, e, d, c, b, a = g, f, e, (d + t1) & M, c, b, a, (t1 + t2) & M
        h = [(x + y) & M for x, y in zip(h, [a, b, c, d, e, f, g, hh])]
    return b"".join(x.to_bytes(4, "big") for x in h)


def _add(p1, p2):
    if p1 is None:
        return p2
    if p2 is None:
        return p1
    x1, y1 = p1
    x2, y2 = p2
    if x1 == x2:
        if (y1 + y2) % P == 0:
            return None
        lam = (3 * x1 * x1 + A) * pow(2 * y1, -1, P) % P
    else:
        lam = (y2 - y1) * pow(x2 - x1, -1, P) % P
    x3 = (lam * lam - x1 - x2) % P
    return x3, (lam * (x1 - x3) - y1) % P


def _mul(k, pt):
    r = None
    while k:
        if k & 1:
            r = _add(r, pt)
        pt = _add(pt, pt)
        k >>= 1
    return r


def parse_spki(spki: bytes):
    """91-byte SubjectPublicKeyInfo of an uncompressed P-256 point"""
    prefix = bytes.fromhex("3059301306072a8648ce3d020106082a8648ce3d030107034200")
    if len(spki) != 91 or spki[:26] != prefix or spki[26] != 4:
        return None
    x = int.from_bytes(spki[27:59], "big")
    y = int.from_bytes(spki[59:91], "big")
    if x >= P or y >= P or (y * y - (x * x * x + A * x + B)) % P != 0:
        return None
    return x, y


def parse_der_sig(sig: bytes):
    """strict DER ECDSA-Sig-Value: SEQUENCE { INTEGER r, INTEGER s }, nothing else"""
    if len(sig) < 8 or sig[0] != 0x30 or sig[1] >= 0x80 or sig[1] != len(sig) - 2:
        return None
    out, i = [], 2
    for _ in range(2):
        if i + 2 > len(sig) or sig[i] != 0x02:
            return None
        ln = sig[i + 1]
        if ln == 0 or ln >= 0x80 or i + 2 + ln > len(sig):
            return None
        body = sig[i + 2:i + 2 + ln]
        if body[0] & 0x80:
            return None  # negative
        if ln > 1 and body[0] == 0 and not (body[1] & 0x80):
            return None  # not minimal
        out.append(int.from_bytes(body, "big"))
        i += 2 + ln
    if i != len(sig):
        return None
    return out[0], out[1]


def verify(msg: bytes, spki: bytes, sig: bytes) -> bool:
    q = parse_spki(spki)
    rs = parse_der_sig(sig)
    if q is None or rs is None:
        return False
    r, s = rs
    if not (1 <= r < N and 1 <= s < N):
        return False
    e = int.from_bytes(sha256(msg), "big")
    w = pow(s, -1, N)
    pt = _add(_mul(e * w % N, (GX, GY)), _mul(r * w % N, q))
    return pt is not None and pt[0] % N == r


if __name__ == "__main__":
    import hashlib
    assert sha256(b"abc") == hashlib.sha256(b"abc").digest()
    assert sha256(b"x" * 200) == hashlib.sha256(b"x" * 200).digest()
    assert _mul(N, (GX, GY)) is None
    print("self-test ok")
