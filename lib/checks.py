"""Per-property check specifications (what to build, which workloads to run, floors, rule text)."""
import os

from . import build as B
from . import enumgen

WRAP_SIM = ["lrtr_get_monotonic_time", "sleep", "lrtr_dbg"]
SIM_SRCS = ["rtrsim.c", "common/sim_data.c", "common/sim_tr.c", "common/sim_cache.c", "common/sim_mon.c"]


def T(quick, thorough):
    return {"quick": quick, "thorough": thorough}


# ------------------------------------------------------------------------------ C19
def c19():
    return dict(
        id="C19", level="exploration", engine="misc",
        prebuild=enumgen.generate,
        builds=[dict(name="misc", config="asan", harness=["misc.c"]),
                dict(name="misc", config="msan", harness=["misc.c"]),
                dict(name="misc", config="plain", harness=["misc.c"])],
        runs=[
            dict(name="ip4", bin="misc", config="asan", mode="ip4", cases=T(400, 20000)),
            dict(name="ip6", bin="misc", config="asan", mode="ip6", cases=T(1024, 20480)),
            dict(name="ipstr", bin="misc", config="asan", mode="ipstr", cases=T(3000, 120000)),
            dict(name="ipstr-msan", bin="misc", config="msan", mode="ipstr", cases=T(1500, 40000)),
            dict(name="ipstr-plain", bin="misc", config="plain", mode="ipstr", cases=T(1500, 40000)),
            dict(name="ip6-msan", bin="misc", config="msan", mode="ip6", cases=T(256, 2560)),
            dict(name="concurrent", bin="misc", config="asan", mode="ipmt", cases=T(16, 320), chunks=16),
        ],
        floors={"c19/roundtrips": T(100000, 1000000), "c19/strings_accepted_by_inet_pton": T(50000, 500000),
                "c19/concurrent_roundtrips": T(3000000, 60000000)},
        rule=("ip4: batches of 512 IPv4 addresses (boundary-octet grid, random, stride); ip6: 48 addresses per case with "
              "zero-group pattern case%256 and boundary group values plus the embedded-IPv4 shapes; ipstr: per address the "
              "inet_ntop text, the library text, full/zero-padded/upper-case spellings, '::' over every zero run at every "
              "position, embedded-IPv4 tails, every truncation and random single-character substitutions/insertions/"
              "deletions. Oracles: library and inet_pton parse the library's text back to the same address; every string "
              "inet_pton accepts is accepted with the same value (lrtr_ip_str_cmp agrees); every parse is done twice with "
              "0x00/0xFF pre-filled output and stack, once with errno = ERANGE and once with errno = 0 on entry, and must agree "
              "(MSan build: result fully initialised); concurrent: 4 threads round-trip 8 addresses of their own 60000 times each "
              "at the same time (text -> inet_pton and library parse -> same address); output "
              "buffers are heap blocks of exactly the announced length 0..64 (ASan red zone). Non-trivial = an address "
              "round-tripped or a string accepted by inet_pton; distinct by hash of the address / string."),
        assumptions=["glibc inet_pton/inet_ntop are the platform reference", "ASan red zones catch writes past the announced length"],
    )


# ------------------------------------------------------------------------------ C20
def c20():
    st = enumgen.parse_enum(os.path.join(B.REPO, "rtrlib", "rtr", "rtr.h"), "rtr_socket_state")
    ms = enumgen.parse_enum(os.path.join(B.REPO, "rtrlib", "rtr_mgr.h"), "rtr_mgr_status")
    n = len(st) + len(ms) + 2 * (2 + 9)
    return dict(
        id="C20", level="exploration", engine="misc", exhaustive=True,
        prebuild=enumgen.generate,
        builds=[dict(name="misc", config="asan", harness=["misc.c"])],
        runs=[dict(name="enum", bin="misc", config="asan", mode="enum", cases=n, chunks=n),
              dict(name="held-and-concurrent", bin="misc", config="asan", mode="enumheld", cases=T(3, 17), chunks=17)],
        floors={"c20/enumerators_probed": len(st) + len(ms), "c20/outside_values_probed": 16,
                "c20/held_names_compared": 2 * (len(st) + len(ms)), "c20/concurrent_conversions_compared": T(1000000, 10000000)},
        rule=("one case per (function, value): every enumerator of enum rtr_socket_state / enum rtr_mgr_status as parsed "
              "from the public headers of the tree under test must map to its identifier; last+1, last+2, -1, -2, 64, 255, "
              "256, 4096, 65536, INT_MAX, INT_MIN must map to NULL; -fsanitize=bounds is fatal so an index outside the "
              "name table is reported at the index expression. Every probe runs in its own process so one abort does not "
              "hide the others. Exhaustive over the declared enumerators; all probes are non-trivial and distinct. held-and-concurrent: "
              "the names of all enumerators are collected first and compared afterwards, and again after a second pass over all "
              "values in reverse order (a name a caller holds must not change when another value is converted); then 4 threads "
              "convert different values 200000 times each at the same time and compare a copy of every result."),
        assumptions=["the header parser (lib/enumgen.py) reads plain C enumerator lists"],
    )


SPECS = {"C19": c19, "C20": c20}


# ------------------------------------------------------------------------------ rtrsim-based properties
def _sim_build(cfg="asan"):
    return dict(name="rtrsim", config=cfg, harness=SIM_SRCS, wraps=WRAP_SIM)


def _sim_tcp_build():
    """the same engine with the library's real TCP transport between the client and the simulator: recv / send /
    setsockopt / close of tcp_transport.c are redirected at link time (harness/common/sim_tr.c, SIM_TCP_WRAPS)"""
    return dict(name="rtrsimtcp", config="asan", harness=SIM_SRCS, wraps=WRAP_SIM + ["recv", "send", "setsockopt", "close"],
                cflags=["-DSIM_TCP_WRAPS"])


def _sim_tcp_run(mode, quick, thorough):
    return dict(name=mode + "-over-tcp-transport", bin="rtrsimtcp", config="asan", mode=mode, cases=T(quick, thorough), timeout=1500,
                chunks=32, args=["tcp=1"])


TCP_RULE = (" <mode>-over-tcp-transport: the same scenarios with tr_tcp_init() (new_socket hook) as the client's transport - "
            "tcp_transport.c runs unchanged, its recv / send / setsockopt(SO_RCVTIMEO, SO_SNDTIMEO) / close calls reach the simulated "
            "cache and the virtual clock through link-time wrappers; a blocking recv() without a timeout waits ten virtual years.")


def _sim_run(mode, quick, thorough, cfg="asan", name=None, timeout=1500):
    return dict(name=name or (mode if cfg == "asan" else mode + "-" + cfg), bin="rtrsim", config=cfg, mode=mode,
                cases=T(quick, thorough), timeout=timeout, chunks=64)


SIM_ASSUME = ["the mock transport honours the tr_socket contract (positive byte counts or a tr_rtvals error, never 0)",
              "virtual clock: lrtr_get_monotonic_time and sleep are wrapped at link time; no wall-clock verdicts",
              "the simulated cache and the reference verdict on its responses (harness/common/sim_cache.c) follow RFC 8210",
              "ASan/UBSan blind spots (non-adjacent overflows, recycled frees)"]

SIM_RULE_COMMON = ("Real FSM thread (rtr_start) against a scripted RFC 8210 cache behind a mock transport and a virtual clock; "
                   "every scenario is a deterministic function of (seed, case). Scenario families: conv = random conversations "
                   "(per-query defects / overrides, transport faults by call index, timed data changes, notifies, cache restarts); "
                   "defect = defect class x position class {CR, first, middle, last, EOD, random} x response kind {first sync, "
                   "delta, reload after Cache Reset}; faults = a base conversation is dry-run to count its transport calls, then "
                   "one fault kind {ERROR, WOULDBLOCK, INTR, CLOSED} at every call position, then random 2..6-fault schedules; "
                   "expiry = outage of E-1..E+3, E+retry, 3E seconds through 7 failure modes; stops = rtr_stop at the k-th "
                   "cancellation point, restart, converge; version = version-0 caches of 3 behaviours, foreign version bytes, late "
                   "downgrades; intervals = End of Data boundary triples x 4 modes; reload = forced reloads with overlapping sets. "
                   "One Error Report in five that the cache sends is padded to the maximum PDU length (3248 bytes, or up to 11 less). ")


def c03():
    return dict(
        id="C03", level="fault_enumeration", engine="rtrsim",
        builds=[_sim_build()],
        runs=[_sim_run("defect", 7200, 108000), _sim_run("conv", 2500, 60000), _sim_run("faults", 3072, 61440),
              _sim_run("reload", 400, 8000),
              dict(name="rollback-under-allocation-failure", bin="rtrsim", config="asan", mode="allocsync", args=["undo_only=1"],
                   cases=T(1024, 16384), timeout=2400, chunks=32),
              _sim_run("intr", 1280, 25600)],
        floors={"c03/exchanges_judged_success": T(50000, 500000), "c03/exchanges_judged_failure": T(5000, 50000),
                "sim/other_source_checks": T(50000, 500000), "c18/sync/runs_with_injected_failure": T(900, 14000)},
        rule=(SIM_RULE_COMMON + "Oracle per exchange: snapshot B of the socket's records (both tables, by source) when the query "
              "is sent; a reference validator walks the response bytes as emitted and decides well-formedness and apply(B,R) "
              "sequentially per record identity. Client went ESTABLISHED: response must be valid, records == apply(B,R), stored "
              "session/serial == End of Data's. Otherwise (judged at the next query / open / stop): records == B and the next query "
              "is the previous one, or records are all gone and the next query is a Reset Query. Records of two other sources that "
              "overlap the cache's data must never change. Non-trivial = a judged exchange; distinct by hash of (B, result, defect, "
              "position) plus the state-trace hash of every scenario. rollback-under-allocation-failure: a small conversation whose incremental "
              "responses fail half way (withdrawal of an unknown record, duplicate announcement) is run once per allocation request k with "
              "the k-th request failing (counting allocator installed through lrtr_set_alloc_functions) - taking back a withdrawal "
              "allocates, so the rollback itself is made to fail at every one of its steps; same oracle. intr: a receive call returns "
              "TR_INTR after exactly k delivered bytes of the first response, for every k in 1..640; all records are announced, among them "
              "two whose IPv6 Prefix PDU carries, 12 bytes in, the image of a complete IPv4 Prefix PDU - a client that loses its place in "
              "the stream finds a well-formed PDU there; same oracle."),
        assumptions=SIM_ASSUME,
    )


def c05():
    return dict(
        id="C05", level="exploration", engine="rtrsim",
        builds=[_sim_build()],
        runs=[_sim_run("conv", 4000, 80000), _sim_run("stops", 1200, 24000), _sim_run("faults", 2048, 40960),
              _sim_run("defect", 1800, 21600)],
        floors={"c05/queries_checked": T(100000, 1000000), "c05/reset_event/cache-reset": T(200, 2000),
                "c05/reset_event/stop-start": T(500, 5000), "c05/boundary_serials_in_queries": T(20, 200)},
        rule=(SIM_RULE_COMMON + "Online trace monitor on the wire: expect = RESET initially; after the client's own ESTABLISHED "
              "transition on a valid response expect = SERIAL(session, serial of End of Data); Cache Reset delivered, no-data Error "
              "Report delivered, a connect later than the expire interval, stop/start and a purge after a failed exchange make it "
              "RESET; every query must equal expect exactly. Responses whose Cache Response / End of Data carry a foreign session "
              "must fail and leave the records unchanged. Serials include 0, 2^31+-1, 2^32-1 and wrap-around. After a transport "
              "fault on a connection the consequences of PDUs the client may not have framed become permitted instead of demanded. "
              "Non-trivial = judged exchange / scenario trace; distinct by hash."),
        assumptions=SIM_ASSUME,
    )


def c07():
    return dict(
        id="C07", level="fault_enumeration", engine="rtrsim",
        builds=[_sim_build()],
        runs=[_sim_run("expiry", 2940, 58800), _sim_run("stops", 1600, 32000), _sim_run("conv", 800, 16000), _sim_run("reload", 600, 12000)],
        floors={"c07/open_checks_past_expiry": T(2000, 40000), "c07/stop_checks": T(5000, 100000),
                "c07/first_query_after_expiry_checks": T(500, 10000), "c07/other_source_left_inside_a_reload": T(100, 2000)},
        rule=(SIM_RULE_COMMON + "Monitor: t_ok = virtual time of the last ESTABLISHED transition on a valid response; at every "
              "transport open() with now - t_ok > the socket's expire interval (read from struct rtr_socket at that moment) the "
              "socket's records in both tables must be gone and the first query of that connection must be a Reset Query; after "
              "every rtr_stop (issued at the k-th cancellation point: mid-response, established wait, retry sleep) no record of "
              "the socket remains; records of the two other sources are compared at each of these points; in a third of the reload "
              "scenarios and a quarter of the conversations one of the other sources is stopped (its records removed by source) on "
              "the client's thread between two reads of a response, typically of a reload: they must still be gone afterwards. expiry cases enumerate "
              "7 durations x 7 failure modes (open fails, send fails, silence, fatal report, no-data report, Cache Reset + "
              "truncated reload, Cache Reset + defective reload) with small retry intervals so that connects fall on every "
              "second around the boundary. Distinct by scenario trace hash."),
        assumptions=SIM_ASSUME,
    )


def c08():
    return dict(
        id="C08", level="fault_enumeration", engine="rtrsim",
        builds=[_sim_build(), _sim_tcp_build()],
        runs=[_sim_run("faults", 6144, 122880), _sim_run("conv", 2500, 60000), _sim_run("expiry", 980, 19600),
              _sim_run("version", 1200, 24000), _sim_run("defect", 1440, 21600),
              _sim_tcp_run("conv", 600, 12000), _sim_tcp_run("faults", 1024, 20480), _sim_tcp_run("expiry", 240, 4800)],
        floors={"c08/convergence_checks": T(10000, 200000), "faults/single/kind-1": T(500, 5000),
                "faults/single/kind-4": T(500, 5000)},
        rule=(SIM_RULE_COMMON + "Bounded-liveness oracle: after the last disturbance (fired transport fault, defective or "
              "overriding answer, cache data change / restart, end of outage) the run continues for refresh + expire + 10*retry + "
              "600 virtual seconds (intervals read from the socket), is judged at the next idle point (an in-flight poll may "
              "finish), and then the client must be ESTABLISHED with records equal to the cache's current data set (router keys "
              "left out under version 0). Spin monitor: > 10000 transport calls without virtual time advancing or input being "
              "consumed; query-storm monitor: 3000 queries in one virtual second. Deadlock monitor: the driver looks at the FSM thread "
              "once per second while it waits for it; no transport call, no CPU time and kernel state S (never R) at 25 consecutive "
              "looks - with the driver being the only other thread nobody is left to wake it - is reported as blocked. Cache "
              "behaviours after the faults: v1, v0 answering in v0, v0 answering Unsupported-Version, v0 that hangs up. One expiry "
              "scenario in four runs without other sources' records (tables empty after the purge); one conversation in nine gets "
              "an unsolicited prefix PDU whose header arrives 1-3 s before the first refresh deadline and whose rest arrives 3-7 s "
              "later, then new data. Distinct by scenario trace hash." + TCP_RULE),
        assumptions=SIM_ASSUME + ["liveness is decided only in its bounded form; the horizon is stated in the rule"],
    )


def c13():
    return dict(
        id="C13", level="exploration", engine="rtrsim",
        builds=[_sim_build()],
        runs=[_sim_run("version", 4000, 100000), _sim_run("defect", 1800, 21600), _sim_run("conv", 1500, 30000)],
        floors={"c13/query_versions_checked": T(50000, 1000000), "c13/downgrade_trigger/first-pdu-v0": T(200, 4000),
                "c13/downgrade_trigger/error-report-code-4": T(200, 4000), "c13/downgrade_trigger/closed-without-answer": T(200, 4000),
                "c13/fast_reconnect_checks": T(200, 4000)},
        rule=(SIM_RULE_COMMON + "Model version mv starts at 1 and is lowered only by the three triggers, applied when the client "
              "has actually received the bytes: first complete header of a connection carries version 0 (non-error PDU); Error "
              "Report code 4 with a lower supported version delivered (next open must happen at the same virtual second); the cache "
              "closes the connection with nothing delivered and no session ever existed. Every query and Error Report sent must "
              "carry mv. Any other non-error PDU with a foreign version byte {0,1,2,255} makes the reference validator mark the "
              "response invalid with expected report code 8: the client must not go ESTABLISHED on it and its records must be "
              "unchanged; End of Data in the other version's format likewise. Lowering after a close that followed a partial "
              "answer or a dropped session is tolerated, not demanded. Distinct by scenario trace hash."),
        assumptions=SIM_ASSUME,
    )


def c14():
    return dict(
        id="C14", level="exploration", engine="rtrsim",
        builds=[_sim_build(), _sim_build("msan"),
                dict(name="mgrmon", config="asan", harness=["mgrmon.c"] + SIM_SRCS[1:],
                     wraps=WRAP_SIM + ["rtr_start", "rtr_stop", "rtr_change_socket_state"], lib_cflags=["--param", "asan-stack=0"]),
                _sim_tcp_build()],
        runs=[_sim_run("defect", 7200, 108000), _sim_run("conv", 2500, 50000), _sim_run("version", 800, 16000),
              _sim_run("defect", 2160, 21600, cfg="msan"), _sim_run("conv", 600, 12000, cfg="msan"),
              _sim_run("faults", 1024, 10240, cfg="msan"),
              dict(name="several-sockets", bin="mgrmon", config="asan", mode="fail", cases=T(1600, 32000), chunks=32, timeout=1800),
              _sim_tcp_run("conv", 600, 12000), _sim_tcp_run("defect", 720, 10800)],
        floors={"wire/pdus_parsed": T(100000, 2000000), "c14/first_reports_judged": T(3000, 50000),
                "c14/encapsulated_copies_checked": T(3000, 50000), "c15/socket_behaviour/sync-ok": T(500, 10000)},
        rule=(SIM_RULE_COMMON + "Wire monitor on the concatenation of all successful send_fp chunks per connection (the mock "
              "accepts 1-byte, 3-byte, random and full writes): the stream must frame into complete PDUs of the negotiated "
              "version, type 1/2/10, length field == bytes sent and <= 3248; a connection may not end inside a PDU unless a write "
              "failed. Error Reports: 16 + encapsulated + text == length; encapsulated bytes must occur verbatim in what the cache "
              "sent on that connection; on an undisturbed connection the first report after a defective response must carry the "
              "code of one of the PDUs the reference validator found in violation (unknown type: 0 or 5) and its encapsulated "
              "bytes must be a byte-exact prefix of that PDU as sent; a delivered violation must draw a report; no report in "
              "reply to an Error Report and none when the response is clean. MSan build: every byte handed to send_fp must have "
              "clean shadow (__msan_test_shadow). several-sockets: the fail-over engine of C15 (2-8 sockets of one manager, each a "
              "real FSM thread over its own cache; exactly one thread runs between two transport calls and the seeded harness picks "
              "which; half of the sockets take a PDU in several writes, so another socket's PDUs go out between two pieces of one PDU) "
              "with the same wire monitor on every connection. Distinct by scenario trace hash / judged exchange." + TCP_RULE),
        assumptions=SIM_ASSUME + ["MSan: libcrypto is linked but never executed in these runs"],
    )


def c17():
    return dict(
        id="C17", level="exploration", engine="rtrsim",
        builds=[_sim_build(), _sim_tcp_build()],
        runs=[dict(name="ivinit", bin="rtrsim", config="asan", mode="ivinit", cases=512, chunks=16),
              _sim_run("intervals", 4096, 200000), _sim_run("conv", 1500, 30000),
              _sim_tcp_run("intervals", 1024, 20000), _sim_tcp_run("conv", 600, 12000)],
        floors={"c17/interval_checks": T(12000, 500000), "c17/rtr_init_calls": 512, "c17/wait_timeout_checks": T(10000, 200000),
                "c17/polls_after_notify": T(100, 2000), "c17/interval_mode_switched_inside_a_response": T(300, 5000)},
        rule=("ivinit: rtr_init and rtr_mgr_init over the full cross product of 8 boundary values per interval (0, min-1.., max+1, "
              "2^32-1): rejected iff any value is out of range, *config_out NULL on rejection. intervals: one real synchronisation "
              "per (mode x End of Data triple from the boundary cross product, then random 32-bit triples) x initial settings at "
              "the range boundaries x v1/v0: afterwards the socket's three intervals must equal the table ignore-any -> unchanged, "
              "accept-any -> as sent, default-min-max -> clamped, ignore-on-failure -> as sent iff inside; v0 -> unchanged "
              "(baseline = the socket's values when the query went out); in one scenario in three the application calls "
              "rtr_set_interval_mode() on the client's thread between two reads of the first response (after the Cache Response, "
              "inside the payload or just behind the End of Data): the mode in force when the End of Data is processed decides. Poll timing on the wire in all conversations: while "
              "established the receive timeout handed to the transport must be max(0, t_ok + refresh - now); a delivered Serial "
              "Notify must be followed by the Serial Query in the same virtual second; otherwise the query goes out no later than "
              "t_ok + refresh. Distinct by hash of the interval triple / scenario trace." + TCP_RULE),
        assumptions=SIM_ASSUME,
    )


SPECS.update({"C03": c03, "C05": c05, "C07": c07, "C08": c08, "C13": c13, "C14": c14, "C17": c17})


# ------------------------------------------------------------------------------ tabmon-based properties
def _tab_build(cfg="asan"):
    return dict(name="tabmon", config=cfg, harness=["tabmon.c"])


def _tab_run(mode, quick, thorough, args=(), name=None, timeout=1500):
    return dict(name=name or mode, bin="tabmon", config="asan", mode=mode, cases=T(quick, thorough), timeout=timeout, args=list(args), chunks=64)


TAB_ASSUME = ["the reference models are flat arrays with linear search, written independently of the trie / hash table",
              "ASan/UBSan blind spots (non-adjacent overflows, recycled frees)", "assertions are enabled in the build under test"]
PFX_RULE = ("Histories of 10..70 operations (add, duplicate add, remove, remove absent, remove near-duplicate, remove-by-source) "
            "over a nesting-rich universe: 2-4 trunk addresses per family that share long prefixes, every length 0..32 / 0..128 incl. "
            "/0 and full length, sibling bit flips, max-length from {len, len+1, full, <len, 255, random}, AS from {0,1,2,3,random,2^32-1}, "
            "3 sources; every 16th case builds the chain of all 33/129 prefixes of one address in ascending, descending or random "
            "order; pfxbig builds tables of thousands of realistic records; every 16th case ends with two threads adding 32 "
            "identical records at the same instant (one add each succeeds, one reports a duplicate, each record enumerated once). ")


def c01():
    return dict(
        id="C01", level="exploration", engine="tabmon",
        builds=[_tab_build()],
        runs=[_tab_run("pfx", 4800, 96000), _tab_run("pfxbig", 16, 160, args=["records=6000"])],
        floors={"c01/queries": T(5000000, 100000000), "c01/verdict/valid": T(500000, 10000000), "c01/verdict/not-found": T(200000, 4000000),
                "c01/chain_tables": T(200, 4000), "c01/tables_with_len0_record": T(500, 10000), "c01/reason_lists_checked": T(2000000, 40000000)},
        rule=(PFX_RULE + "After every 5 operations a query battery derived from the table contents runs: for every stored (prefix,len) the "
              "lengths {len-1, len, len+1, maxlen, maxlen+1, full} x the prefix extended with 0-bits / 1-bits / random bits x AS "
              "{record's AS, 0, unused}, plus random queries, 1/8 with non-zero host bits; via pfx_table_validate, pfx_table_validate_r "
              "(fresh and reused reason buffer) and rtr_mgr_validate. Oracle: RFC 6811 over the flat model: covering = same family, "
              "record length <= route length, equal leading bits; VALID iff some covering record has the same non-zero AS and max-length "
              ">= route length; INVALID iff covering non-empty and not VALID; else NOT FOUND. Reasons: NOT FOUND -> none (NULL, 0); INVALID -> "
              "multiset-equal to covering; VALID -> sub-multiset of covering containing a matching record. Non-trivial = query with >= 2 "
              "covering records; distinct by hash of (query, trie shape hash); only hashes = 0 mod 16 are recorded, so the count is a "
              "lower bound on the distinct non-trivial queries."),
        assumptions=TAB_ASSUME,
    )


def c02():
    return dict(
        id="C02", level="exploration", engine="tabmon",
        builds=[_tab_build()],
        runs=[_tab_run("pfx", 4800, 96000), _tab_run("pfxbig", 16, 160, args=["records=6000"])],
        floors={"c02/identical_records_added_by_two_threads_at_once": T(2000, 40000), "c02/enumerations_compared": T(150000, 3000000), "c02/op/remove": T(30000, 600000), "c02/src_remove_nonempty": T(4000, 80000),
                "c02/op/add_duplicate": T(8000, 160000), "c02/op/remove_absent": T(20000, 400000)},
        rule=(PFX_RULE + "Oracle: the model is a set of 5-tuples (prefix, len, max-len, AS, source); every operation's return code must be "
              "the model's (SUCCESS / DUPLICATE_RECORD / RECORD_NOT_FOUND) and after EVERY operation the concatenation of "
              "pfx_table_for_each_ipv4_record and _ipv6_record must equal the model as a multiset with all five fields intact (and each "
              "enumerator must only yield its own family). Near-duplicates differing in exactly one field are generated on purpose; in one "
              "case of eight half of the records carry bits behind their prefix length (tails 1, 2, 3, top bit, all ones), so that records "
              "differing only there must stay distinct. "
              "Non-trivial = history in which a removal shrank a table that stayed non-empty; distinct by hash of the operation history."),
        assumptions=TAB_ASSUME,
    )


def c09():
    return dict(
        id="C09", level="exploration", engine="tabmon+rtrsim",
        builds=[_tab_build(), _sim_build()],
        runs=[_tab_run("pfx", 3200, 64000), _tab_run("allocpfx", 160, 3200), _sim_run("reload", 600, 12000), _sim_run("conv", 1200, 24000), _sim_run("defect", 1080, 21600),
              _sim_run("stops", 400, 8000), _sim_run("expiry", 490, 9800)],
        floors={"c09/replay_vs_table_checks": T(150000, 3000000), "c09/table_free_checks": T(5000, 100000), "c09/reload_netdiff_checks": T(1000, 20000)},
        rule=(PFX_RULE + "Monitor: the installed pfx_update_fp maintains the replayed set S online: 'added' of a record already in S or "
              "'removed' of one not in S is an immediate violation; after every public operation S must equal the enumeration of the "
              "table, after pfx_table_free S must be empty. The same monitor runs inside rtrsim (real FSM thread vs scripted cache) where "
              "the operations are whole cache exchanges: successful deltas, failed deltas with rollback, atomic reloads with overlapping "
              "old/new sets (callbacks during a reload over a non-empty set must number exactly |old xor new|), failed reloads, expiry "
              "purge, rtr_stop, table destruction; records of two other sources share the table. allocpfx: histories in which the k-th "
              "allocation fails, for every k: an operation that fails and leaves the table unchanged must leave the replayed log "
              "unchanged as well. Distinct by history / trace hash."),
        assumptions=TAB_ASSUME + SIM_ASSUME[:3],
    )


def c10():
    return dict(
        id="C10", level="exploration", engine="tabmon+rtrsim",
        builds=[_tab_build(), _sim_build()],
        runs=[_tab_run("spki", 640, 12800), _sim_run("reload", 400, 8000), _sim_run("stops", 300, 6000)],
        floors={"c10/identical_keys_added_by_two_threads_at_once": T(2000, 40000), "c10/get_all_checked": T(500000, 10000000), "c10/search_by_ski_checked": T(100000, 2000000), "c10/copy_swap_diff_cycles": T(1500, 30000),
                "c10/histories_crossing_grow_step": T(300, 6000), "c10/histories_shrinking_below_eighth": T(100, 2000), "c10/callbacks": T(200000, 4000000)},
        rule=("Histories over router keys (three in four shaped like real ones: the 27 leading bytes common to every P-256 "
              "SubjectPublicKeyInfo, two differing bytes somewhere in the point) with 5 shared SKIs and AS numbers found by a start-up search to collide in the low 10 bits of "
              "tommy_inthash_u32 (bucket sharing between different AS numbers), target sizes 8..1100 so that the linear hash table grows "
              "past 33/65/129/257/513/1025 entries and shrinks again below 1/8 load; operations: add, duplicate add, remove, remove of a "
              "near-duplicate (AS, any single bit of the key, or source differs), remove-by-source, and the reload pattern copy_except_socket + add + swap + "
              "notify_diff, plus a raw swap. Oracle: flat model of (AS, SKI, key, source); return codes must be the model's; after every "
              "operation get_all(AS, SKI) for all 65 pairs (sampled when the table is large) and search_by_ski for all SKIs must be "
              "multiset-equal to the model; the spki_update_fp callbacks are replayed and must reproduce the table, also inside rtrsim "
              "(reloads, stop, expiry). Every fourth case ends with two threads adding 32 byte-identical keys at the same instant (spin "
              "barrier): exactly one add per key succeeds, the other reports a duplicate, the table holds the key once. Distinct by history hash."),
        assumptions=TAB_ASSUME,
    )


SPECS.update({"C01": c01, "C02": c02, "C09": c09, "C10": c10})


def c18():
    return dict(
        id="C18", level="fault_enumeration", engine="tabmon+rtrsim",
        builds=[_tab_build(), _sim_build()],
        runs=[_tab_run("allocpfx", 480, 9600), _tab_run("allocspki", 160, 3200),
              dict(name="allocsync", bin="rtrsim", config="asan", mode="allocsync", cases=T(3072, 18432), timeout=2400, chunks=64,
                   remap_props={"C03": "C18", "C08:blocked": "C18"}),
              dict(name="balance-defect", bin="rtrsim", config="asan", mode="defect", cases=T(2160, 21600), timeout=1500, chunks=32, args=["balance=1"]),
              dict(name="balance-conv", bin="rtrsim", config="asan", mode="conv", cases=T(600, 12000), timeout=1500, chunks=32, args=["balance=1"]),
              dict(name="balance-faults", bin="rtrsim", config="asan", mode="faults", cases=T(1024, 10240), timeout=1500, chunks=32, args=["balance=1"]),
              dict(name="balance-stops", bin="rtrsim", config="asan", mode="stops", cases=T(600, 6000), timeout=1500, chunks=32, args=["balance=1"])],
        floors={"c18/sync/leak_checks": T(4000, 40000), "c18/runs_with_injected_failure": T(15000, 300000), "c18/sync/runs_with_injected_failure": T(2800, 16000),
                "c18/sync/table_probes_after_recovery": T(20000, 100000),
                "c18/pfx/leak_checks": T(400, 8000), "c18/spki/leak_checks": T(100, 2000),
                "c18/pfx/validate_hit_by_failure": T(500, 10000)},
        rule=("A counting / failing allocator is installed through the public lrtr_set_alloc_functions(); every block carries a header "
              "(magic, size, serial) so a block freed through libc free(), a foreign block, a double free and a leak are detected "
              "exactly. Each history is first run failure-free (leak accounting: nothing may remain allocated once the tables are "
              "freed), then re-run once per allocation request k with the k-th request (malloc or realloc) returning NULL. pfx / spki "
              "histories: the operation hit by the failure must either return an error with the enumeration equal to the state before, "
              "or succeed with its full effect; the remaining history must keep passing the C02 / C10 set checks. allocsync: a real "
              "synchronisation conversation (first sync with > 100 PDUs per type, delta, Cache Reset + atomic reload through shadow "
              "tables, > 129 router keys) with k spread over all its allocation requests: no crash, and the C03 exchange oracle "
              "(records unchanged or purged, other sources intact) must hold; failure-free variants with rtr_stop at the k-th "
              "cancellation point are leak-checked. Two further conversations are enumerated the same way: one whose incremental responses "
              "fail half way (the rollback itself is made to fail at each step) and one with a cache that has no router keys until after "
              "its first reload (the shadow key table is built without touching a key). Recovery probe: whenever the client is "
              "ESTABLISHED after the injected failure, both tables must take and release a record. The application's own table "
              "initialisation is kept out of the enumeration (spki_table_init cannot report failure). A client thread blocked for good "
              "after the failure counts for C18 here. balance-*: the defect, conversation, transport-fault and stop scenarios of the "
              "protocol engine (defective responses of every class at every position, Error Reports, faults, stops at every "
              "cancellation point) run with the counting allocator installed and no failure injected: when the client has been stopped "
              "and both tables freed, no block may be left and none may have been released past the allocator. "
              "The monitors' own lookups are neither counted nor failed. Distinct by (history, k)."),
        assumptions=TAB_ASSUME + ["leaks on failure paths are outside the property (it speaks of failure-free runs)"],
    )


SPECS.update({"C18": c18})


# ------------------------------------------------------------------------------ conc-based properties
CONC_SRCS = ["conc.c", "common/sim_data.c", "common/sim_tr.c", "common/sim_cache.c", "common/sim_mon.c"]


def _conc_build(cfg):
    return dict(name="conc", config=cfg, harness=CONC_SRCS, wraps=WRAP_SIM)


CONC_ASSUME = ["interleavings are those the OS scheduler produces under load on this machine plus what ThreadSanitizer infers from happens-before; "
               "no systematic schedule enumeration", "glibc pthread_rwlock is the only synchronisation the tables use (TSan intercepts it)",
               "only race reports with a frame in trie*.c / ht-spkitable.c / tommy* are verdicts; others are diagnostics"]


def c16():
    return dict(
        id="C16", level="exploration", engine="conc", jobs=6,
        builds=[_conc_build("plain"), _conc_build("tsan")],
        runs=[dict(name="lin", bin="conc", config="plain", mode="lin", cases=T(160, 3200), args=["ops=2000"], chunks=16, timeout=1800),
              dict(name="lin-tsan", bin="conc", config="tsan", mode="lin", cases=T(24, 320), args=["ops=500"], chunks=8, timeout=1800, tsan=True)],
        floors={"c16/reads_overlapping_a_write": T(1000000, 20000000), "c16/overlapping_reads/validate": T(100000, 2000000),
                "c16/overlapping_reads/enum-v4": T(10000, 200000), "c16/overlapping_reads/get_all": T(50000, 1000000)},
        rule=("Each run: 4-12 reader threads and one writer on one pfx_table and one spki_table over universes of 64 nested prefix "
              "records (3 sources) and 64 router keys (3 AS numbers x 4 SKIs), so that the model state is a pair of 64-bit masks. The "
              "writer performs a seeded sequence of add / remove / remove-by-source on both tables and publishes started=k before and "
              "completed=k after operation k (remove-by-source on the prefix table counts as two model steps, one per address family, "
              "because the library purges the two tries under separate lock holds). Readers sample lo=completed before and hi=started "
              "after each call (pfx_table_validate_r, for_each_ipv4/6_record, spki_table_get_all, spki_table_search_by_ski) and log "
              "(query, lo, hi, state, result set). Offline checker: some step v in [lo,hi] must explain the answer (validation state and "
              "reason set per RFC 6811, exact enumeration, exact key sets). TSan build of the same workload: reports are read from the "
              "log, de-duplicated by (kind, innermost function < outermost table entry point) pairs; any report touching table code is a "
              "violation. Every third run is 'hot': all keys under two (AS, SKI) pairs, 88% of the writer's operations on keys, 2-5 "
              "readers doing 80% key lookups. Injected delay: one in four allocations made on a reader thread (through "
              "lrtr_set_alloc_functions) spins 2-40 us before returning - an allocation is what a lookup does between or inside its "
              "critical sections. Non-trivial = a run with reads that overlapped a write; distinct by hash."),
        assumptions=CONC_ASSUME,
    )


def c06():
    return dict(
        id="C06", level="exploration", engine="conc", jobs=3,
        builds=[_conc_build("plain"), _conc_build("tsan")],
        runs=[dict(name="reload", bin="conc", config="plain", mode="reload", cases=T(12, 160), args=["epochs=8", "records=1000", "readers=8"], chunks=12, timeout=1800),
              dict(name="reload-big", bin="conc", config="plain", mode="reload", cases=T(2, 24), args=["epochs=6", "records=1024", "readers=14"], chunks=2, timeout=1800),
              dict(name="reload-tsan", bin="conc", config="tsan", mode="reload", cases=T(3, 30), args=["epochs=4", "records=200", "readers=4"], chunks=3, timeout=1800, tsan=True)],
        # the observation counts depend on how many reads the reader threads get in while a reload is on its way, i.e. on the
        # machine's load: the floors are a tenth of what an idle machine gives
        floors={"c06/observations_while_reload_in_flight": T(30000, 300000), "c06/reloads_completed": T(100, 1500),
                "c06/flip_query_observations": T(15000, 150000), "c06/new_set_observations": T(5000, 50000),
                "c06/reloads_rejected_at_end_of_data_then_retried": T(3, 40)},
        rule=("The real FSM thread (rtr_start) synchronises with a scripted cache that has restarted with a new session id and the next "
              "of 5-9 pre-computed data sets (a common core + a random half of the remaining 1000 prefix records / 192 router keys) at "
              "every poll: Serial Query -> Cache Reset -> Reset Query -> full response, i.e. a reload while the socket already holds "
              "data; a static second source shares the tables. 4-14 reader threads spin on pfx_table_validate and spki_table_get_all "
              "over 192 pre-computed queries; each observation is stamped with the epoch counter before and after the call (unequal -> "
              "discarded; the counter advances when the new set goes on the wire). Oracle per table: the answer must equal the "
              "pre-computed answer under the old or under the new set; a query with the same answer under both must never deviate "
              "(this is what detects an empty or half-loaded table); per reader, after a new-only answer no old-only answer may follow "
              "within the epoch. One reload in three fails first and is retried: half of those are cut short after a few PDUs, the "
              "other half arrive complete but announce a record twice, so that the client rejects them at End of Data and takes back "
              "what it had applied - readers must see the old set all along. A run without observations inside a reload window is inconclusive. TSan build: same workload, smaller "
              "data; table-code race reports are violations. Distinct by hash of the per-run observation counts."),
        assumptions=CONC_ASSUME + SIM_ASSUME[:3],
    )


SPECS.update({"C16": c16, "C06": c06})


# ------------------------------------------------------------------------------ bgpmon-based properties
BGP_ASSUME = ["OpenSSL's EVP_DigestSign/EVP_DigestVerify and SHA-256 are the trusted base of the oracle (the library itself uses the low-level ECDSA_* interface); a sample is cross-checked by a pure-Python P-256/SHA-256 verifier",
              "the oracle's RFC 8205 section 4.2 octet-sequence builder works on plain arrays and shares no code with rtrlib's stream / alignment code",
              "ASan/UBSan blind spots; libcrypto is not instrumented"]


def _p256_post(prop):
    """second opinion: re-judge the sampled (octet sequence, SPKI, signature, EVP verdict) tuples in pure Python"""
    def post(bdir, res, tier, seed):
        import glob
        from . import p256
        n = agree = 0
        limit = 60 if tier == "quick" else 600
        for f in sorted(glob.glob(os.path.join(bdir, "out", "*.p256"))):
            for line in open(f):
                if n >= limit:
                    break
                parts = line.split()
                if len(parts) != 4:
                    continue
                msg, spki, sig = (bytes.fromhex(x) for x in parts[:3])
                evp = parts[3] == "1"
                mine = p256.verify(msg, spki, sig)
                n += 1
                if mine == evp:
                    agree += 1
                    res.add_cnt("p256/" + ("accepted_by_both" if mine else "rejected_by_both"), 1)
                else:
                    res.viol.append(dict(prop=prop, key="%s:second-opinion-disagrees:evp-%d-python-%d" % (prop, evp, mine), case=-1, run="p256", seed=seed,
                                         msg="EVP says %s, the pure-Python P-256 verifier says %s for signature %s" % (evp, mine, parts[2][:40])))
        res.add_cnt("p256/tuples_rejudged_in_pure_python", n)
    return post


def c11():
    return dict(
        id="C11", level="exploration", engine="bgpmon", post=_p256_post("C11"),
        builds=[dict(name="bgpmon", config="asan", harness=["bgpmon.c"], wraps=["lrtr_dbg"])],
        runs=[dict(name="validate", bin="bgpmon", config="asan", mode="validate", cases=T(9000, 120000), args=["hops=8", "flips=36", "p256=3"], chunks=48),
              dict(name="validate-long", bin="bgpmon", config="asan", mode="validate", cases=T(480, 8000), args=["hops=32", "flips=24"], chunks=16),
              dict(name="validate-very-long", bin="bgpmon", config="asan", mode="validate", cases=T(64, 1000), args=["hops=96", "flips=12"], chunks=16),
              dict(name="concurrent", bin="bgpmon", config="asan", mode="mt", cases=T(32, 640), args=["hops=8", "threads=4"], chunks=8)],
        floors={"c11/validations": T(150000, 2000000), "c11/expected/1": T(4000, 60000), "c11/bitflip/signature": T(9000, 120000),
                "c11/key_table/right-key-under-other-AS-only": T(1200, 18000), "c11/unequal_segment_counts": T(600, 9000)},
        rule=("Fresh P-256 key pairs; paths of 1..8 (and 1..32, 1..96) hops with arbitrary pCount / flags / AS values, IPv4 NLRI of every "
              "length 0..32 and IPv6 0..128, signed hop by hop from the origin by the ORACLE's own signer over the ORACLE's own RFC 8205 "
              "4.2 octet sequence; six key-table variants (all correct; the right key registered only under another AS; a wrong key "
              "under the right AS plus the right key under a wrong AS; several keys per SKI; one SKI missing; unrelated extra keys; "
              "shared SKIs between hops). Then single-bit corruptions of every signed field: target AS, any pCount / flags / AS, "
              "algorithm suite, AFI (hashed and checked), SAFI, NLRI length and bytes, SKI and signature of any hop. Oracle per "
              "validation: expected VALID iff for every hop some key registered for (SKI, AS of that hop's Secure_Path Segment) "
              "verifies the signature under EVP over the oracle's sequence; specific codes for a SKI absent from the table, unsupported "
              "suite, unsupported AFI, unequal segment counts; every other case must merely differ from VALID. Calls go through "
              "rtr_bgpsec_validate_as_path and rtr_mgr_bgpsec_validate_as_path. A sample of the tuples EVP judged (60 quick / 600 thorough, "
              "accepted and rejected) is re-judged by a pure-Python P-256 + SHA-256 verifier (lib/p256.py, strict DER) and must agree. "
              "Distinct by hash of the signed path and key-table variant."),
        assumptions=BGP_ASSUME,
    )


def c12():
    return dict(
        id="C12", level="exploration", engine="bgpmon", post=_p256_post("C12"),
        builds=[dict(name="bgpmon", config="asan", harness=["bgpmon.c"], wraps=["lrtr_dbg"])],
        runs=[dict(name="sign", bin="bgpmon", config="asan", mode="sign", cases=T(16000, 200000), args=["hops=8", "p256=3"], chunks=48),
              dict(name="sign-long", bin="bgpmon", config="asan", mode="sign", cases=T(400, 6000), args=["hops=32"], chunks=16),
              dict(name="sign-very-long", bin="bgpmon", config="asan", mode="sign", cases=T(96, 1500), args=["hops=96"], chunks=16),
              dict(name="concurrent", bin="bgpmon", config="asan", mode="mt", cases=T(32, 640), args=["hops=8", "threads=4"], chunks=8)],
        floors={"c12/signatures_verified_independently": T(60000, 800000), "c12/assembled_paths_validated": T(15000, 200000), "c12/negative_cases": T(15000, 200000),
                "c12/negative/scalar-only-key-out-of-range": T(1000, 10000), "c12/signings_with_a_scalar_only_key_file": T(5000, 50000)},
        rule=("For random paths (1..8, 1..32 and 1..96 hops, every NLRI length of both families, arbitrary field values, keys drawn from 24 "
              "fresh P-256 pairs) every hop from the origin to the newest is signed through rtr_mgr_bgpsec_generate_signature; each "
              "result must be exactly one well-formed DER ECDSA-Sig-Value of the announced length and must verify under the matching "
              "public key with EVP_DigestVerify over the ORACLE's RFC 8205 4.2 octet sequence; the path assembled from the generated "
              "signatures must validate as VALID both by the library and by the oracle. One key file in five carries the scalar only (RFC "
              "5915 makes the public key optional); every other request has a my_as that differs from the newest segment's AS (it "
              "takes no part in the digest). Negative cases per path: random, truncated, wrong-curve (P-384) private keys, scalar-only "
              "key files whose scalar is 0, n, just above n or near 2^256, and key files carrying another key's public point -> "
              "LOAD_PRIV_KEY_ERROR; unsupported suite / AFI and path_len != sigs_len + 1 (too few "
              "signatures: any count 0..n-2; too many: n) -> "
              "their specific codes with *new_signature left NULL; every negative call is made twice and must answer the same. A sample "
              "of the EVP verdicts is re-judged by the pure-Python verifier. concurrent: 4 threads, 150 rounds each per case, every round "
              "signs the newest hop of a fresh path through the library (verified against the oracle's digest) and validates the "
              "oracle-signed path (must be VALID), keys shared read-only - nothing in the property ties a call to one thread. "
              "Distinct by hash of the path."),
        assumptions=BGP_ASSUME,
    )


SPECS.update({"C11": c11, "C12": c12})

# ------------------------------------------------------------------------------ C04: coverage-guided stage
def _c04_libfuzzer(bdir, res, tier, seed):
    """clang libFuzzer + ASan + the fatal UBSan subset over the same simulator: input = control byte + the stream the
    cache sends.  A sanitizer report, an assertion, a C04 monitor verdict (framing rule, segmentation invariance, spin)
    or a hang is a violation; the artifact is kept under replays/C04/."""
    import re
    import shutil
    import subprocess
    from concurrent.futures import ThreadPoolExecutor
    from . import runner as R
    nproc, runs = (8, 2500) if tier == "quick" else (16, 150000)
    srcs = [os.path.join(B.VERIF, "harness", x) for x in SIM_SRCS]
    try:
        binp, _ = B.build("fuzz", srcs, "rtrfuzz", bdir, wraps=WRAP_SIM, extra_cflags=["-DVERIF_LIBFUZZER"])
    except B.BuildError as e:
        res.harness_fail.append("libfuzzer build failed: %s" % str(e)[-800:])
        return
    fdir = os.path.join(bdir, "fuzz")
    os.makedirs(fdir)
    dictp = os.path.join(fdir, "rtr.dict")
    with open(dictp, "w") as f:
        # 32-bit big-endian boundary values of length / serial fields, and (version, type) header pairs
        for v in (0, 1, 7, 8, 9, 12, 16, 20, 24, 32, 123, 3247, 3248, 3249, 65535, 65536, 0x7fffffff, 0x80000000,
                  0xfffffff0, 0xfffffff8, 0xfffffffc, 0xffffffff, 0x00010008, 0x00010014, 0x00010018, 0x00010020, 0xffff0014):
            f.write('"%s"\n' % "".join("\\x%02x" % b for b in v.to_bytes(4, "big")))
        for ver in (0, 1, 2):
            for typ in (0, 1, 2, 3, 4, 6, 7, 8, 9, 10, 255):
                f.write('"\\x%02x\\x%02x"\n' % (ver, typ))

    def one(i):
        d = os.path.join(fdir, "p%d" % i)
        corp, art = os.path.join(d, "corpus"), os.path.join(d, "art")
        os.makedirs(corp)
        os.makedirs(art)
        env = dict(os.environ)
        env["ASAN_OPTIONS"] = "detect_leaks=0:detect_stack_use_after_return=0:allocator_may_return_null=1:abort_on_error=1"
        env["UBSAN_OPTIONS"] = "print_stacktrace=1"
        env["VERIF_FUZZ_SEEDDIR"] = corp
        env["VERIF_FUZZ_NSEEDS"] = "96"
        env["VERIF_FUZZ_OUT"] = os.path.join(d, "monitor.out")
        cmd = [binp, "-seed=%d" % (int(seed) * 1000 + i + 1), "-runs=%d" % runs, "-max_len=6000", "-detect_leaks=0", "-rss_limit_mb=0",
               "-timeout=60", "-use_value_profile=1", "-print_final_stats=1", "-dict=" + dictp, "-artifact_prefix=" + art + "/", corp]
        logp = os.path.join(d, "log")
        with open(logp, "w") as lf:
            try:
                rc = subprocess.run(cmd, stdout=lf, stderr=subprocess.STDOUT, env=env, cwd=d, timeout=(900 if tier == "quick" else 6 * 3600)).returncode
            except subprocess.TimeoutExpired:
                rc = "watchdog"
        return i, rc, logp, art

    with ThreadPoolExecutor(max_workers=nproc) as ex:
        outs = list(ex.map(one, range(nproc)))
    cov = ft = 0
    for i, rc, logp, art in outs:
        txt = open(logp, errors="replace").read()
        m = re.findall(r"stat::number_of_executed_units: (\d+)", txt)
        if m:
            res.add_cnt("libfuzzer/executions", int(m[-1]))
        m = re.findall(r"cov: (\d+) ft: (\d+) corp: (\d+)", txt)
        if m:
            cov = max(cov, int(m[-1][0]))
            ft = max(ft, int(m[-1][1]))
            res.add_cnt("libfuzzer/corpus_units_at_end", int(m[-1][2]))
        res.add_cnt("libfuzzer/processes", 1)
        if rc == 0:
            continue
        if rc == "watchdog":
            res.inconclusive.append("libfuzzer process %d did not finish within the wall-clock watchdog" % i)
            continue
        arts = sorted(os.listdir(art))
        mv = re.search(r"MONITOR-VIOLATION prop=(\S+) key=(\S+) msg=(.*)", txt)
        if mv:
            key, msg = mv.group(2), mv.group(3)
        elif any(a.startswith("timeout-") for a in arts):
            key, msg = "C04:hang:libfuzzer", "one execution exceeded 60 s"
        else:
            key, msg = "C04:" + R.classify_crash(-6, txt), txt[-3000:]
        keep = ""
        if arts:
            rd = os.path.join(B.VERIF, "replays", "C04")
            os.makedirs(rd, exist_ok=True)
            keep = os.path.join(rd, "libfuzzer-" + arts[0])
            shutil.copy(os.path.join(art, arts[0]), keep)
        res.viol.append(dict(prop="C04", key=key, case=-1, run="libfuzzer", seed=seed,
                             msg="%s | input kept at %s (control byte + stream; re-run: build with lib/build.py config 'fuzz', -DVERIF_LIBFUZZER, then <binary> <file>)" % (msg, keep)))
    res.maxcnt["max:libfuzzer/edges_covered"] = cov
    res.maxcnt["max:libfuzzer/features"] = ft


def c04():
    return dict(
        id="C04", level="exploration", engine="rtrsim", post=_c04_libfuzzer, post_on_replay=False,
        builds=[_sim_build(), _sim_tcp_build()],
        runs=[_sim_run("fuzz", 18000, 250000), _sim_run("defect", 3600, 54000), _sim_run("faults", 2048, 40960), _sim_run("conv", 1000, 20000),
              dict(name="intr", bin="rtrsim", config="asan", mode="intr", cases=T(1280, 25600), timeout=1500, chunks=32,
                   remap_props={"C03:": "C04"}),
              _sim_tcp_run("fuzz", 2000, 40000), _sim_tcp_run("faults", 512, 10240)],
        floors={"c04/streams_x_chunkings": T(70000, 950000), "c04/post_exchange_probes": T(17000, 240000), "sim/response/defective": T(10000, 200000),
                "sim/response/truncated": T(2000, 30000), "libfuzzer/executions": T(15000, 1500000),
                "sim/scenarios_with_responses_of_over_300_pdus_per_kind": T(10, 100)},
        rule=(SIM_RULE_COMMON + "fuzz: a structure-aware generator builds a well-formed answer (Cache Response, up to 24 prefix / router-key "
              "PDUs, optional Error Report, End of Data) and applies 0-3 mutations: length field from {0,1,7,8,9,12,20,24,32,3247,3248,3249, "
              "65535,65536,2^31-1,2^31,2^32-1, 65536+{8,20,24,32}, correct+-4}, type, version, flags / prefix length / max length / zero byte from "
              "{0,1,2,31,32,33,127,128,129,254,255}, any payload byte, nested Error-Report lengths, session, duplicated PDU, truncation at "
              "any byte, random 32-bit fields; 8% of the streams are pure random bytes. The stream is the first answer on an empty socket "
              "(rtr_sync), the answer to a Serial Query after a genuine synchronisation, or arrives while the client idles "
              "(rtr_wait_for_sync); the connection is then silent or closed, and one more poll follows. Oracles: (1) the process survives "
              "ASan, the fatal UBSan subset and assertions - including a probe that enumerates both tables afterwards and validates a route "
              "for every stored record, since hostile prefix lengths only bite when the trie is searched; (2) spin monitor on logical steps "
              "(10000 transport calls without time advancing or input being consumed), wall-clock watchdog as backstop; (3) every stream "
              "is replayed under 4 read segmentations (maximal, 1-byte, random, 3-byte) and the digest of (every byte the client sent, "
              "state-callback sequence, final socket state and serial, contents of both tables) must be identical; (4) framing rule from "
              "the reference validator: a PDU with length < 8, > 3248, inconsistent with its type, or of unknown type must make the "
              "exchange fail with the tables unchanged. Distinct by outcome digest. Coverage-guided stage: the same simulator built with "
              "clang libFuzzer + ASan + the fatal UBSan subset (8 processes x 2500 executions quick, 16 x 150000 thorough, value profile "
              "on); input = one control byte (where the stream arrives, interval mode, cache version, close afterwards, second read "
              "segmentation) + the stream; seed corpus = 96 streams of the structure-aware generator per process; scenario seed constant so "
              "that session and serial can be learnt; each execution runs the stream under maximal reads and one other segmentation and "
              "compares outcomes; a C04 monitor verdict traps like a sanitizer report. intr: a receive call returns TR_INTR after exactly "
              "k delivered bytes of the first response, for every k in 1..640 (all records announced, among them two whose IPv6 Prefix "
              "PDU carries the image of an IPv4 Prefix PDU 12 bytes in); wherever the client is torn out of the stream, nothing that was "
              "not sent as a PDU may be applied: the per-exchange oracle of C03 decides, its verdicts count for C04 in this run." + TCP_RULE),
        assumptions=SIM_ASSUME + ["coverage-guided stage: monitors of sibling properties stay diagnostic there, as in the generator-driven fuzz mode"],
    )


SPECS.update({"C04": c04})


# ------------------------------------------------------------------------------ C15
def c15():
    return dict(
        id="C15", level="exploration", engine="mgrmon",
        builds=[dict(name="mgrmon", config="asan", harness=["mgrmon.c", "common/sim_data.c", "common/sim_tr.c", "common/sim_cache.c", "common/sim_mon.c"],
                     wraps=WRAP_SIM + ["rtr_start", "rtr_stop", "rtr_change_socket_state"], lib_cflags=["--param", "asan-stack=0"])],
        runs=[dict(name="cfg", bin="mgrmon", config="asan", mode="cfg", cases=T(3000, 60000), chunks=32),
              dict(name="fail", bin="mgrmon", config="asan", mode="fail", cases=T(3200, 80000), chunks=64, timeout=1800)],
        floors={"c15/rule_a_checks": T(2500, 60000), "c15/rule_b_checks": T(2500, 60000), "c15/rule_c_checks": T(2500, 60000), "c15/rule_d_checks": T(1500, 36000),
                "c15/order_checks": T(10000, 200000), "c15/remove_last_group_attempts": T(1500, 30000), "c15/add_group_duplicate_preference": T(1000, 20000)},
        rule=("cfg: direct calls - rtr_mgr_init with 0 groups, with a socket-less group at any position, with a duplicated preference at "
              "any pair of positions (must fail with *config_out == NULL and no sanitizer report); valid managers of 1-3 groups handed over "
              "in random preference order, then random sequences of remove-existing / remove-absent / add-with-used-preference: the last "
              "group must not be removable, a used preference must give RTR_INVALID_PARAM, and after every step rtr_mgr_for_each_group must "
              "be strictly ascending with rtr_mgr_get_first_group as its head. fail: the real manager with 1-3 groups x 1-2 sockets, every "
              "socket a real FSM thread over its own scripted cache {sync ok, 1-4 failing connects, fatal Error Report for 1-3 queries, "
              "no-data for 1-3 queries, silence, success then a fatal answer to a later poll} on the shared virtual clock; all transport "
              "calls and wrapped sleeps pass a token gate so that exactly one FSM thread runs between two gates and the (seeded) harness "
              "picks which; one scenario in three gets a further group (preference before, between or behind the existing ones) through "
              "rtr_mgr_add_group once a third to two thirds of its steps are done, every thread standing at its gate meanwhile. "
              "Trace monitor on status_fp / rtr_start / rtr_stop: (a) ESTABLISHED is reported for a group only if each of its "
              "sockets reached ESTABLISHED since it was started; (b) after a group was reported ESTABLISHED, by the reporting thread's next "
              "gate every less-preferred group has no running socket and was last reported CLOSED; (c) every rtr_stop issued from a "
              "callback targets a strictly less-preferred group; (d) when a group goes non-ERROR -> ERROR while no other group is reported "
              "ESTABLISHED, the most-preferred group without running sockets has been started by the reporting thread's next gate; "
              "rtr_mgr_start starts exactly the most-preferred group. Distinct by hash of the (run, state, status, start, stop) trace."),
        assumptions=["ASan stack instrumentation is off in this engine (--param asan-stack=0): cancelling a thread from inside the library's cleanup-handler "
                     "region leaves stale red zones that trip the ASan runtime itself; heap checking stays on",
                     "interleavings are chosen at transport-call granularity; finer-grained races between manager callbacks are not explored",
                     "virtual clock shared by all sockets; the order in which time-outs of different sockets expire follows the gate schedule"],
    )


SPECS.update({"C15": c15})
