"""Per-property check specifications (what to build, which workloads to run, floors, rule text)."""
import os

from . import build as B
from . import enumgen

WRAP_TIME = ["lrtr_get_monotonic_time", "sleep"]


def T(quick, thorough):
    return {"quick": quick, "thorough": thorough}


# ------------------------------------------------------------------------------ C19
def c19():
    return dict(
        id="C19", level="exploration", engine="misc",
        prebuild=enumgen.generate,
        builds=[dict(name="misc", config="asan", harness=["misc.c"]),
                dict(name="misc", config="msan", harness=["misc.c"]),
                dict(name="misc", config="plain", harness=["misc.c"])],
        runs=[
            dict(name="ip4", bin="misc", config="asan", mode="ip4", cases=T(400, 20000)),
            dict(name="ip6", bin="misc", config="asan", mode="ip6", cases=T(1024, 20480)),
            dict(name="ipstr", bin="misc", config="asan", mode="ipstr", cases=T(3000, 120000)),
            dict(name="ipstr-msan", bin="misc", config="msan", mode="ipstr", cases=T(1500, 40000)),
            dict(name="ipstr-plain", bin="misc", config="plain", mode="ipstr", cases=T(1500, 40000)),
            dict(name="ip6-msan", bin="misc", config="msan", mode="ip6", cases=T(256, 2560)),
        ],
        floors={"c19/roundtrips": T(100000, 1000000), "c19/strings_accepted_by_inet_pton": T(50000, 500000)},
        rule=("ip4: batches of 512 IPv4 addresses (boundary-octet grid, random, stride); ip6: 48 addresses per case with "
              "zero-group pattern case%256 and boundary group values plus the embedded-IPv4 shapes; ipstr: per address the "
              "inet_ntop text, the library text, full/zero-padded/upper-case spellings, '::' over every zero run at every "
              "position, embedded-IPv4 tails, every truncation and random single-character substitutions/insertions/"
              "deletions. Oracles: library and inet_pton parse the library's text back to the same address; every string "
              "inet_pton accepts is accepted with the same value (lrtr_ip_str_cmp agrees); every parse is done twice with "
              "0x00/0xFF pre-filled output and stack and must agree (MSan build: result fully initialised); output "
              "buffers are heap blocks of exactly the announced length 0..64 (ASan red zone). Non-trivial = an address "
              "round-tripped or a string accepted by inet_pton; distinct by hash of the address / string."),
        assumptions=["glibc inet_pton/inet_ntop are the platform reference", "ASan red zones catch writes past the announced length"],
    )


# ------------------------------------------------------------------------------ C20
def c20():
    st = enumgen.parse_enum(os.path.join(B.REPO, "rtrlib", "rtr", "rtr.h"), "rtr_socket_state")
    ms = enumgen.parse_enum(os.path.join(B.REPO, "rtrlib", "rtr_mgr.h"), "rtr_mgr_status")
    n = len(st) + len(ms) + 2 * (2 + 9)
    return dict(
        id="C20", level="exploration", engine="misc", exhaustive=True,
        prebuild=enumgen.generate,
        builds=[dict(name="misc", config="asan", harness=["misc.c"])],
        runs=[dict(name="enum", bin="misc", config="asan", mode="enum", cases=n, chunks=n)],
        floors={"c20/enumerators_probed": len(st) + len(ms), "c20/outside_values_probed": 16},
        rule=("one case per (function, value): every enumerator of enum rtr_socket_state / enum rtr_mgr_status as parsed "
              "from the public headers of the tree under test must map to its identifier; last+1, last+2, -1, -2, 64, 255, "
              "256, 4096, 65536, INT_MAX, INT_MIN must map to NULL; -fsanitize=bounds is fatal so an index outside the "
              "name table is reported at the index expression. Every probe runs in its own process so one abort does not "
              "hide the others. Exhaustive over the declared enumerators; all probes are non-trivial and distinct."),
        assumptions=["the header parser (lib/enumgen.py) reads plain C enumerator lists"],
    )


SPECS = {"C19": c19, "C20": c20}
