"""Generic check runner: build -> fan cases out over worker processes -> collect monitor
output -> match violations against known_findings.json -> write evidence -> exit code.

Exit codes: 0 property held on everything explored (KNOWN-FINDING lines allowed),
            1 at least one violation not listed in known_findings.json,
            2 harness failure or inconclusive run (never folded into 0 or 1).
"""
import array
import fnmatch
import json
import os
import re
import signal
import subprocess
import sys
import threading
import time
from concurrent.futures import ThreadPoolExecutor

from . import build as B

VERIF = B.VERIF
NWORK = int(os.environ.get("VERIF_JOBS", "16"))

TABLE_FILES = ("trie-pfx.c", "trie.c", "ht-spkitable.c", "tommy")


def log(*a):
    print(*a, flush=True)


# ---------------------------------------------------------------- crash classification
_ASAN = re.compile(r"ERROR: (AddressSanitizer|LeakSanitizer): ([A-Za-z0-9_-]+)")
_ASSERT = re.compile(r": ([A-Za-z0-9_]+): Assertion `(.*)' failed")
_UBSAN = re.compile(r"([A-Za-z0-9_./-]+):(\d+):(\d+): runtime error: (.*)")
_MSAN = re.compile(r"WARNING: MemorySanitizer: ([A-Za-z0-9_-]+)")
_FRAME = re.compile(r"#\d+ (?:0x[0-9a-f]+ in )?([A-Za-z0-9_.]+) (\S+?):(\d+)")


def _first_lib_frame(text):
    """first stack frame that lies in /repo (library code), else first frame at all"""
    first = None
    for m in _FRAME.finditer(text):
        fn, path = m.group(1), m.group(2)
        if first is None:
            first = (fn, os.path.basename(path))
        if "/rtrlib/" in path or "/third-party/" in path:
            return fn, os.path.basename(path)
    return first or ("?", "?")


def classify_crash(rc, stderr):
    m = _ASSERT.search(stderr)
    if m:
        expr = re.sub(r"\s+", "", m.group(2))[:60]
        return "assert:%s:%s" % (m.group(1), expr)
    m = _ASAN.search(stderr)
    if m:
        fn, f = _first_lib_frame(stderr[m.start():])
        return "asan:%s:%s" % (m.group(2), fn)
    m = _MSAN.search(stderr)
    if m:
        fn, f = _first_lib_frame(stderr[m.start():])
        return "msan:%s:%s" % (m.group(1), fn)
    # fatal UBSan check: the last runtime error line precedes the abort
    ms = list(_UBSAN.finditer(stderr))
    if ms and rc != 0:
        m = ms[-1]
        msg = re.sub(r"[0-9]+", "N", m.group(4))[:50].strip().replace(" ", "_")
        fn, f = _first_lib_frame(stderr[m.start():])
        return "ubsan:%s:%s:%s" % (os.path.basename(m.group(1)), fn, msg)
    if rc < 0:
        try:
            return "signal:" + signal.Signals(-rc).name
        except ValueError:
            return "signal:%d" % -rc
    return "exit:%d" % rc


def count_ubsan_diag(stderr):
    return len(_UBSAN.findall(stderr))


# ---------------------------------------------------------------- TSan log parsing
def parse_tsan_logs(paths):
    """returns {key: sample_text}; key = pair of outermost library entry points + innermost
    functions, line numbers stripped; only reports that touch table code are returned as
    table races, others as 'other' diagnostics."""
    table, other = {}, {}
    for p in paths:
        try:
            txt = open(p, errors="replace").read()
        except OSError:
            continue
        for blk in re.split(r"={18}\n", txt):
            if "WARNING: ThreadSanitizer" not in blk:
                continue
            kind = re.search(r"WARNING: ThreadSanitizer: ([^(\n]+)", blk).group(1).strip()
            stacks = re.split(r"\n\s*\n", blk)
            sigs = []
            touches_table = False
            for st in stacks[:3]:
                if not re.search(r"(Write|Read|Previous|Atomic|Mutex)", st.split("\n", 1)[0] if st else ""):
                    continue
                frames = [(m.group(1), os.path.basename(m.group(2))) for m in _FRAME.finditer(st)]
                lib = [fr for fr in frames if not fr[1].startswith(("conc", "tsan", "harness", "sim", "rtrsim", "mgrmon"))
                       and fr[0] not in ("main",)]
                libf = [fr for fr in frames if any(fr[1].startswith(t) for t in TABLE_FILES)]
                if libf:
                    touches_table = True
                inner = frames[0][0] if frames else "?"
                outer = libf[-1][0] if libf else (lib[-1][0] if lib else inner)
                sigs.append("%s<%s" % (inner, outer))
            key = "%s:%s" % (kind.replace(" ", "_"), "|".join(sorted(sigs)))
            (table if touches_table else other).setdefault(key, blk[:3000])
    return table, other


# ---------------------------------------------------------------- known findings
def load_findings():
    p = os.path.join(VERIF, "known_findings.json")
    if not os.path.exists(p):
        return {"known": [], "fixed": []}
    return json.load(open(p))


def match_known(findings, prop, key):
    for k in findings.get("known", []):
        if k.get("property") == prop and fnmatch.fnmatchcase(key, k["key"]):
            return k
    return None


# ---------------------------------------------------------------- worker
class Result:
    def __init__(self):
        self.lock = threading.Lock()
        self.viol = []          # dicts: prop,key,case,msg,run,seed
        self.cnt = {}
        self.maxcnt = {}
        self.samples = []
        self.nt = set()
        self.nt_own = set()
        self.harness_fail = []
        self.inconclusive = []
        self.ubsan_diag = 0
        self.tsan_logs = []
        self.evaluations = 0
        # early end on a tree that violates: see verdict_is_in()
        self.t0 = time.time()
        self.budget = None
        self.findings = {}
        self._verdict = False

    def _unlisted(self, prop, o):
        return o.get("prop") == prop and match_known(self.findings, prop, str(o.get("key", ""))) is None

    def verdict_is_in(self, prop, peek=None, remap=None):
        """True once an unlisted violation of this property is on record AND the run is over the time budget for
        trees that violate (on a tree without violations this never fires: nothing changes there).  A check that has its
        verdict gains nothing from finishing a workload that the defect under test may have made arbitrarily slow;
        violations listed in known_findings.json do not count, so that a different violation is still looked for.
        peek: output file of a process that is still running (the harness flushes every violation line)."""
        if not self.budget or time.time() < self.t0 + self.budget:
            return False
        with self.lock:
            if not self._verdict and any(self._unlisted(prop, v) for v in self.viol):
                self._verdict = True
            if self._verdict:
                return True
        if peek:
            try:
                with open(peek) as f:
                    for line in f:
                        if '"t":"viol"' not in line:
                            continue
                        try:
                            o = _remap(json.loads(line), remap)
                        except ValueError:
                            continue
                        if self._unlisted(prop, o):
                            with self.lock:
                                self._verdict = True
                            return True
            except OSError:
                pass
        return False

    def add_cnt(self, k, v):
        if k.startswith("max:"):
            self.maxcnt[k] = max(self.maxcnt.get(k, 0), v)
        else:
            self.cnt[k] = self.cnt.get(k, 0) + v


def _remap(o, remap):
    """re-label a violation record: by property, or by key prefix (entries containing ':')"""
    if remap:
        tgt = remap.get(o.get("prop"))
        if tgt is None:
            for k2, t2 in remap.items():
                if ":" in k2 and str(o.get("key", "")).startswith(k2):
                    tgt = t2
        if tgt:
            o["key"] = tgt + ":sync:" + o["key"]
            o["prop"] = tgt
    return o


def _read_out(path, res, runname, seed, prop_filter, remap=None):
    done = False
    try:
        with open(path) as f:
            for line in f:
                try:
                    o = json.loads(line)
                except ValueError:
                    continue
                t = o.get("t")
                if t == "viol":
                    o = _remap(o, remap)
                    o["run"] = runname
                    o["seed"] = seed
                    with res.lock:
                        res.viol.append(o)
                elif t == "cnt":
                    with res.lock:
                        res.add_cnt(o["k"], o["v"])
                elif t == "sample":
                    with res.lock:
                        if len(res.samples) < 8:
                            res.samples.append({"run": runname, "case": o.get("case"), "case_data": o["v"]})
                elif t == "done":
                    done = True
    except OSError:
        pass
    for ntp, dest in ((path + ".nt", res.nt), (path + ".nt." + prop_filter, res.nt_own)):
        try:
            a = array.array("Q")
            with open(ntp, "rb") as f:
                data = f.read()
            a.frombytes(data[: len(data) // 8 * 8])
            with res.lock:
                dest.update(a)
        except OSError:
            pass
    return done


def _prog_case(path, default):
    try:
        return int(open(path + ".prog").read().split()[0])
    except (OSError, ValueError, IndexError):
        return default


def run_chunk(binary, run, seed, lo, hi, outbase, res, prop, env_extra=None):
    """run cases [lo,hi) in one process; restart after an aborted case"""
    mode = run["mode"]
    timeout = run.get("timeout", 900)
    attempt = 0
    cur = lo
    ended_by_monitor = 0
    while cur < hi:
        if res.verdict_is_in(prop):
            with res.lock:
                res.add_cnt("runner/chunks_not_run_after_the_verdict_was_in", 1)
            return
        out = "%s.%d" % (outbase, attempt)
        attempt += 1
        cmd = [binary, mode, str(seed), str(cur), str(hi), out] + [str(a) for a in run.get("args", [])]
        env = dict(os.environ)
        env["ASAN_OPTIONS"] = "abort_on_error=1:detect_leaks=0:detect_stack_use_after_return=0:allocator_may_return_null=1:handle_abort=1"
        env["UBSAN_OPTIONS"] = "print_stacktrace=1"
        env["MSAN_OPTIONS"] = "abort_on_error=1"
        if run.get("tsan"):
            tlog = out + ".tsan"
            env["TSAN_OPTIONS"] = "halt_on_error=0:report_signal_unsafe=0:history_size=4:log_path=%s" % tlog
        if env_extra:
            env.update(env_extra)
        if run.get("env"):
            env.update(run["env"])
        errp = out + ".stderr"
        with open(errp, "w") as ef:
            p = subprocess.Popen(cmd, stdout=ef, stderr=subprocess.STDOUT, env=env, cwd=os.path.dirname(binary))
            timed_out = False
            cut = False
            t_end = time.time() + timeout
            while True:
                try:
                    rc = p.wait(timeout=5)
                    break
                except subprocess.TimeoutExpired:
                    if res.verdict_is_in(prop, peek=out, remap=run.get("remap_props")):
                        cut = True
                    elif time.time() < t_end:
                        continue
                    else:
                        timed_out = True
                    p.kill()
                    rc = p.wait()
                    break
        if cut:
            # the tree under test already has an unlisted violation of this property and the run is over its time
            # budget for such trees: what this process has written so far is still read, nothing more is started
            _read_out(out, res, run["name"], seed, prop, run.get("remap_props"))
            with res.lock:
                res.add_cnt("runner/processes_stopped_after_the_verdict_was_in", 1)
            return
        stderr = open(errp, errors="replace").read()
        done = _read_out(out, res, run["name"], seed, prop, run.get("remap_props"))
        with res.lock:
            res.ubsan_diag += count_ubsan_diag(stderr)
            if run.get("tsan"):
                d = os.path.dirname(out)
                res.tsan_logs += [os.path.join(d, f) for f in os.listdir(d) if f.startswith(os.path.basename(out) + ".tsan")]
        if done and not timed_out and (rc == 0 or (run.get("tsan") and rc == 66)):
            return  # 66 = ThreadSanitizer's exit code when it reported something; the log is parsed later
        failed_case = _prog_case(out, cur)
        if rc == 99 and not timed_out:
            # a spin monitor reported its violation and ended the process because the case could not be brought
            # to an end: nothing crashed, go on with the next case
            with res.lock:
                res.add_cnt("runner/cases_ended_by_spin_monitor", 1)
            cur = failed_case + 1
            ended_by_monitor += 1
            if ended_by_monitor >= 3:
                # the verdict is in; a tree on which every case ends like this would otherwise cost (cases x the
                # monitor's patience) - the rest of this chunk is not run
                with res.lock:
                    res.add_cnt("runner/chunks_cut_short_after_3_monitor_exits", 1)
                return
            continue
        if timed_out:
            # re-run the single case once; a reproducible hang is a verdict, a one-off is not
            out2 = out + ".retry"
            cmd2 = [binary, mode, str(seed), str(failed_case), str(failed_case + 1), out2] + [str(a) for a in run.get("args", [])]
            try:
                p2 = subprocess.run(cmd2, stdout=subprocess.DEVNULL, stderr=subprocess.DEVNULL, env=env,
                                    timeout=run.get("case_timeout", 900), cwd=os.path.dirname(binary))
                _read_out(out2, res, run["name"], seed, prop, run.get("remap_props"))
                with res.lock:
                    res.add_cnt("runner/timeout_then_ok", 1)
            except subprocess.TimeoutExpired:
                with res.lock:
                    res.viol.append(dict(prop=prop, key="%s:hang:%s" % (prop, run["name"]), case=failed_case,
                                         msg="case did not finish within the watchdog twice", run=run["name"], seed=seed))
            cur = failed_case + 1
            continue
        if rc == 2 and not done:
            with res.lock:
                res.harness_fail.append("%s: harness exit 2: %s" % (run["name"], stderr[-500:]))
            return
        key = "%s:%s" % (prop, classify_crash(rc, stderr))
        with res.lock:
            res.viol.append(dict(prop=prop, key=key, case=failed_case, run=run["name"], seed=seed,
                                 msg="process aborted (rc=%d): %s" % (rc, stderr[-6000:])))
        cur = failed_case + 1


# ---------------------------------------------------------------- main entry
def execute(spec, tier, seed, only_case=None):
    """spec: see lib/checks.py.  Returns exit code."""
    t0 = time.time()
    prop = spec["id"]
    res = Result()
    bdir = B.new_builddir(prop)
    findings = load_findings()
    res.t0, res.findings = t0, findings
    if only_case is None:
        res.budget = int(os.environ.get("VERIF_VIOLATING_TREE_BUDGET", {"quick": 600, "thorough": 3600}.get(tier, 600)))
    try:
        bins = {}
        libobjs = {}
        try:
            pre = spec.get("prebuild")
            if pre:
                pre(bdir)
            for b in spec["builds"]:
                cfg = b["config"]
                srcs = [s if os.path.isabs(s) else os.path.join(VERIF, "harness", s) for s in b["harness"]]
                srcs = [s.replace("@BUILD@", bdir) for s in srcs]
                lk = (cfg, tuple(b.get("lib_cflags", ())))
                binp, lo = B.build(cfg, srcs, b["name"], bdir, extra_cflags=b.get("cflags", ()),
                                   extra_ldflags=b.get("ldflags", ()), wraps=b.get("wraps", ()),
                                   lib_objs=libobjs.get(lk), lib_cflags=b.get("lib_cflags", ()))
                libobjs[lk] = lo
                bins[(b["name"], cfg)] = binp
        except B.BuildError as e:
            log("HARNESS-FAILURE: build failed\n%s" % e)
            return 2
        log("[%s] built %d binaries in %.1fs" % (prop, len(bins), time.time() - t0))

        jobs = []
        for run in spec["runs"]:
            if only_case is not None and run["name"] != only_case[0]:
                continue
            n = run["cases"][tier] if isinstance(run["cases"], dict) else run["cases"]
            if n <= 0:
                continue
            binp = bins[(run["bin"], run["config"])]
            if only_case is not None:
                jobs.append((binp, run, only_case[1], only_case[2], only_case[2] + 1))
                continue
            nch = min(n, run.get("chunks", NWORK * 3))
            per = (n + nch - 1) // nch
            for lo in range(0, n, per):
                jobs.append((binp, run, seed, lo, min(n, lo + per)))
            res.evaluations += n
        outdir = os.path.join(bdir, "out")
        os.makedirs(outdir, exist_ok=True)

        def work(ix_job):
            ix, (binp, run, sd, lo, hi) = ix_job
            run_chunk(binp, run, sd, lo, hi, os.path.join(outdir, "%s-%d" % (run["name"], ix)), res, prop)

        with ThreadPoolExecutor(max_workers=min(NWORK, spec.get("jobs", NWORK))) as ex:
            list(ex.map(work, enumerate(jobs)))

        if res._verdict:
            log("[%s] an unlisted violation was on record when the time budget for violating trees (%d s) ran out: "
                "the rest of the workload was not run" % (prop, res.budget))
        # TSan verdicts
        ntsan = sum(1 for j in jobs if j[1].get("tsan"))
        if ntsan:
            res.add_cnt("tsan/instrumented_processes_run", ntsan)
            res.add_cnt("tsan/log_files_with_reports", len(set(res.tsan_logs)))
        if res.tsan_logs:
            table, other = parse_tsan_logs(sorted(set(res.tsan_logs)))
            for k, blk in table.items():
                res.viol.append(dict(prop=prop, key="%s:tsan:%s" % (prop, k), case=-1, run="tsan", seed=seed, msg=blk))
            res.add_cnt("tsan/distinct_table_reports", len(table))
            res.add_cnt("tsan/distinct_other_reports_diagnostic_only", len(other))
            if other:
                res.cnt_other = sorted(other)[:10]

        # post-processing hook (e.g. python second-opinion verifier)
        post = spec.get("post")
        if post and (only_case is None or spec.get("post_on_replay", True)):
            post(bdir, res, tier, seed)

        # ---------------- verdict
        unknown, known_hit = {}, {}
        for v in res.viol:
            if v.get("prop") != prop:
                # monitors of sibling properties run in the same engine; they are decided by their own check
                res.add_cnt("other_property_signals/" + str(v.get("prop")), 1)
                continue
            k = match_known(findings, prop, v["key"])
            if k is not None:
                known_hit.setdefault(k["key"], (k, v))
            else:
                unknown.setdefault(v["key"], v)
        for k, (kf, v) in sorted(known_hit.items()):
            log("KNOWN-FINDING: property=%s %s [key=%s]" % (prop, kf.get("what", ""), v["key"]))
        rc = 0
        rep_dir = os.path.join(VERIF, "replays", prop)
        for key, v in sorted(unknown.items()):
            os.makedirs(rep_dir, exist_ok=True)
            fn = re.sub(r"[^A-Za-z0-9_.-]", "_", key)[:120] + "-%s-%s.json" % (v.get("seed"), v.get("case"))
            path = os.path.join(rep_dir, fn)
            with open(path, "w") as f:
                json.dump(dict(property=prop, key=key, seed=v.get("seed"), case=v.get("case"), run=v.get("run"),
                               tier=tier, msg=v.get("msg"),
                               replay="bin/check %s --replay %s" % (prop, path)), f, indent=1)
            log("VIOLATION property=%s replay=%s" % (prop, path))
            log("   key=%s case=%s: %s" % (key, v.get("case"), str(v.get("msg"))[:600].replace("\n", "\n      ")))
            rc = 1

        # floors: a monitor that observed too little makes the run inconclusive
        for k, floor in (spec.get("floors") or {}).items():
            fl = floor[tier] if isinstance(floor, dict) else floor
            if only_case is None and res.cnt.get(k, 0) < fl:
                res.inconclusive.append("counter %s=%d below floor %d" % (k, res.cnt.get(k, 0), fl))

        nt = len(res.nt) + len(res.nt_own)
        if only_case is None:
            cov = dict(
                evaluations=int(res.evaluations),
                distinct_nontrivial=int(nt),
                rule=spec["rule"],
                samples=res.samples[:6] if res.samples else [{"note": "no sample emitted"}],
                observed=dict(sorted(list(res.cnt.items()) + list(res.maxcnt.items()))),
                known_findings_reported=sorted(known_hit),
                ubsan_nonfatal_diagnostics=res.ubsan_diag,
                builds=[b["config"] for b in spec["builds"]],
                exhaustive=bool(spec.get("exhaustive", False)),
            )
            if spec.get("coverage_extra"):
                cov.update(spec["coverage_extra"](res))
            ev = dict(property_id=prop, tier=tier, seed=int(seed), level=spec["level"], coverage=cov,
                      assumptions=spec.get("assumptions", []), wall_s=round(time.time() - t0, 2),
                      violations=len(unknown))
            evdir = os.environ.get("VERIF_EVIDENCE_DIR") or os.path.join(VERIF, "evidence")  # side runs on a copy keep out of evidence/
            os.makedirs(evdir, exist_ok=True)
            with open(os.path.join(evdir, prop + ".json"), "w") as f:
                json.dump(ev, f, indent=1, sort_keys=True)
                f.write("\n")
        if res.harness_fail:
            for h in res.harness_fail[:5]:
                log("HARNESS-FAILURE: " + h)
            return 2 if rc == 0 else rc
        if res.inconclusive and rc == 0:
            for h in res.inconclusive:
                log("INCONCLUSIVE: " + h)
            return 2
        log("[%s] tier=%s seed=%s evaluations=%d distinct_nontrivial=%d unknown_violations=%d known=%d wall=%.1fs" %
            (prop, tier, seed, res.evaluations, nt, len(unknown), len(known_hit), time.time() - t0))
        return rc
    finally:
        if not os.environ.get("VERIF_KEEP_BUILD"):
            B.cleanup(bdir)


def main(argv, specs):
    import argparse
    ap = argparse.ArgumentParser()
    ap.add_argument("prop")
    ap.add_argument("--tier", default=os.environ.get("VERIF_TIER", "quick"), choices=["quick", "thorough"])
    ap.add_argument("--seed", type=int, default=int(os.environ.get("VERIF_SEED", "1")))
    ap.add_argument("--replay")
    a = ap.parse_args(argv)
    if a.prop not in specs:
        log("unknown property %s" % a.prop)
        return 2
    spec = specs[a.prop]()
    if a.replay:
        r = json.load(open(a.replay))
        if r.get("case", -1) is None or r.get("case", -1) < 0:
            log("this finding stems from a whole run (e.g. TSan); re-running the tier")
            return execute(spec, r.get("tier", "quick"), r["seed"])
        return execute(spec, r.get("tier", "quick"), r["seed"], only_case=(r["run"], r["seed"], r["case"]))
    return execute(spec, a.tier, a.seed)
