"""Generate {value,"NAME"} tables for enum rtr_socket_state and enum rtr_mgr_status from the
public headers of the tree under test, so that an enumerator added later without a name
(or a reordering) is caught by C20."""
import os
import re

from . import build as B


def parse_enum(path, name):
    src = open(path).read()
    src = re.sub(r"/\*.*?\*/", "", src, flags=re.S)
    src = re.sub(r"//[^\n]*", "", src)
    m = re.search(r"enum\s+%s\s*\{(.*?)\}" % re.escape(name), src, flags=re.S)
    if not m:
        raise B.BuildError("enum %s not found in %s" % (name, path))
    out, val = [], -1
    for item in m.group(1).split(","):
        item = item.strip()
        if not item:
            continue
        if "=" in item:
            ident, v = [x.strip() for x in item.split("=", 1)]
            val = int(v, 0)
        else:
            ident, val = item, val + 1
        out.append((ident, val))
    return out


def generate(builddir):
    st = parse_enum(os.path.join(B.REPO, "rtrlib", "rtr", "rtr.h"), "rtr_socket_state")
    ms = parse_enum(os.path.join(B.REPO, "rtrlib", "rtr_mgr.h"), "rtr_mgr_status")
    with open(os.path.join(builddir, "enum_names.h"), "w") as f:
        f.write("/* generated from the headers of the tree under test */\n")
        f.write("struct enum_name { int value; const char *name; };\n")
        for nm, lst in (("SOCKET_STATES", st), ("MGR_STATUS", ms)):
            f.write("static const struct enum_name %s[] = {\n" % nm)
            for ident, v in lst:
                f.write("  { %d, \"%s\" },\n" % (v, ident))
            f.write("};\n#define N_%s %d\n" % (nm, len(lst)))
