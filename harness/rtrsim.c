/* rtrsim engine: the real FSM thread against a scripted RFC 8210 cache behind a mock transport
 * and a virtual clock.  Scenario families (mode):
 *   conv       random conversations: defects, overrides, transport faults, timed cache events  (C03 C05 C08 C09 C14)
 *   defect     every defect class x position class x response kind, one per case               (C03 C04 C13 C14)
 *   faults     base conversation dry-run to count transport calls, then a fault at call k      (C08 C03)
 *   expiry     outage of length around the expire interval through every failure mode          (C07)
 *   stops      rtr_stop at the k-th parkable point, restart, converge                           (C07 C05)
 *   version    version-0 caches of all behaviours, foreign version bytes, late downgrades        (C13)
 *   intervals  End of Data interval triples x modes x initial settings; rtr_init rejection       (C17)
 *   reload     forced full reloads with overlapping old/new sets and update callbacks            (C09 C10)
 */
#include "allocmon.h"
#include "sim_int.h"

#include "rtrlib/rtr_mgr_private.h"

VCOMMON_GLOBALS
ALLOCMON_GLOBALS

static bool ALLOC_MODE; /* allocsync: the counting / failing allocator is installed */
static unsigned long ALLOC_FAIL_AT;
static unsigned long ALLOC_REQUESTS; /* measured by the last run */

#define VBASE 1000000

static struct universe U;
static void post_exchange_probe(struct sim *s);

struct scen {
	struct simcfg cfg;
	int np, nk, init_records, init_keys;
	int cache_version, v0_mode;
	bool no_data;
	uint16_t session;
	uint32_t serial;
	uint32_t eod_iv[3]; /* refresh, retry, expire */
	int restart_after_phase1; /* stop + start after the first park, then run phase 2 */
	struct simcfg cfg2;
	bool final_convergence;
	bool callbacks;
	bool probe;
	int announce_cap;
};

static const unsigned int REFRESH_SET[] = {1, 2, 30, 3600, 86400};
static const unsigned int RETRY_SET[] = {1, 2, 7, 600, 7200};
static const unsigned int EXPIRE_SET[] = {600, 601, 7200, 172800};

static void pick_intervals(struct rng *r, unsigned int *refresh, unsigned int *retry, unsigned int *expire, bool bounded)
{
	*expire = EXPIRE_SET[rndn(r, 4)];
	*retry = RETRY_SET[rndn(r, 5)];
	*refresh = REFRESH_SET[rndn(r, 5)];
	if (bounded) {
		/* keep horizon/refresh and horizon/retry small so that a C08 horizon costs few polls / retries */
		while ((uint64_t)(*expire + 10 * *retry + 600) / *refresh > 400)
			*refresh = REFRESH_SET[rndn(r, 5)];
		while ((uint64_t)(*refresh + *expire + 10 * *retry + 600) / *retry > 1500)
			*retry = RETRY_SET[rndn(r, 5)];
	}
}

static void scen_defaults(struct scen *sc, struct rng *r)
{
	memset(sc, 0, sizeof(*sc));
	sc->np = 48;
	sc->nk = 10;
	sc->init_records = 8 + (int)rndn(r, 16);
	sc->cache_version = 1;
	sc->session = (uint16_t)rnd32(r);
	sc->serial = rndp(r, 1, 3) ? 0xfffffff0u + rndn(r, 16) : rnd32(r) % 100000;
	pick_intervals(r, &sc->cfg.refresh, &sc->cfg.retry, &sc->cfg.expire, true);
	sc->cfg.iv_mode = RTR_INTERVAL_MODE_IGNORE_ANY;
	sc->eod_iv[0] = 3600;
	sc->eod_iv[1] = 600;
	sc->eod_iv[2] = 7200;
	sc->cfg.chunk_rx = (int)rndn(r, 4);
	sc->cfg.chunk_tx = (int)rndn(r, 4);
	sc->cfg.others = true;
	sc->cfg.c08_mode = true;
	sc->final_convergence = true;
	sc->callbacks = true;
	sc->announce_cap = sc->np;
}

/* ------------------------------------------------------------------ scenario execution */
static struct rtr_socket OTHER1, OTHER2;
#ifdef SIM_TCP_WRAPS
#include "rtrlib/transport/tcp/tcp_transport.h"
static long USE_TCP; /* argument tcp=1: the client's transport is the library's TCP transport, see sim_tr.c */
#else
#define USE_TCP 0
static struct tr_socket tcp_tr_unused;
#define tcp_tr tcp_tr_unused
#endif

/* C18, synchronisations: the client reports ESTABLISHED although an allocation was made to fail earlier in the
 * conversation - whatever that allocation was for must have been given up cleanly: both tables still take and release
 * a record.  Run at the first ESTABLISHED after the injection (on the FSM thread, no table lock is held there) and once
 * more at the end of the scenario. */
static void alloc_recovery_probe(struct sim *s)
{
	struct spki_record kr;
	struct pfx_record pr;
	int a, b;

	if (!ALLOC_MODE || !AM.failures_injected)
		return;
	AM.paused = true;
	memset(&kr, 0, sizeof(kr));
	kr.asn = 4242424242u;
	memset(kr.ski, 0xEE, SKI_SIZE);
	memset(kr.spki, 0x11, SPKI_SIZE);
	kr.socket = &OTHER1;
	a = spki_table_add_entry(s->spkit, &kr);
	b = spki_table_remove_entry(s->spkit, &kr);
	CNT("c18/sync/table_probes_after_recovery");
	if (a != SPKI_SUCCESS || b != SPKI_SUCCESS)
		viol("C18", "C18:sync:key-table-unusable-after-recovered-failure", "the client is ESTABLISHED after the injected allocation failure, but the router-key table refuses a record: add %d, remove %d",
		     a, b);
	memset(&pr, 0, sizeof(pr));
	pr.asn = 4242424242u;
	pr.prefix.ver = LRTR_IPV4;
	pr.prefix.u.addr4.addr = 0xCB007100u;
	pr.min_len = pr.max_len = 24;
	pr.socket = &OTHER1;
	a = pfx_table_add(s->pfxt, &pr);
	b = pfx_table_remove(s->pfxt, &pr);
	if (a != PFX_SUCCESS || b != PFX_SUCCESS)
		viol("C18", "C18:sync:prefix-table-unusable-after-recovered-failure", "the client is ESTABLISHED after the injected allocation failure, but the prefix table refuses a record: add %d, remove %d",
		     a, b);
	AM.paused = false;
}

static int run_scen(struct scen *sc, uint64_t seed, struct sim *keep)
{
	static struct sim S; /* large: static, one scenario at a time */
	struct sim *s = &S;
	struct pfx_table pfxt;
	struct spki_table spkit;
	struct rtr_socket sock;
	struct cblog cb;
	struct rng r;
	bset p, k;

	r.s = seed ^ 0x5eed;
	VNOW = 1000000;
	if (ALLOC_MODE) {
		am_reset();
		AM.fail_at = ALLOC_FAIL_AT;
		am_install();
		SIM_ON_ESTABLISHED = alloc_recovery_probe;
	}
	universe_build(&U, &r, sc->np, sc->nk);
	sim_init(s, &U, &sc->cfg, seed ^ 0xabcdef);
	s->cache.version = sc->cache_version;
	s->cache.v0_mode = sc->v0_mode;
	s->cache.no_data = sc->no_data;
	s->cache.session = sc->session;
	s->cache.serial = sc->serial;
	s->cache.eod_refresh = sc->eod_iv[0];
	s->cache.eod_retry = sc->eod_iv[1];
	s->cache.eod_expire = sc->eod_iv[2];
	s->cache.announce_cap = U.np;
	bs_zero(&p);
	bs_zero(&k);
	for (int i = 0; i < sc->init_records && s->cache.announce_cap > 0; i++)
		bs_set(&p, (int)rndn(&r, (uint32_t)s->cache.announce_cap));
	for (int i = 0; i < (sc->init_keys < 0 ? 0 : sc->init_keys ? sc->init_keys : sc->init_records / 4) && U.nk; i++)
		bs_set(&k, (int)rndn(&r, (uint32_t)U.nk));
	sim_cache_push_dataset(s, &p, &k);

	memset(&sock, 0, sizeof(sock));
	/* the application's own table initialisation is not part of the enumeration: spki_table_init() returns void and
	 * cannot say that its first bucket vector could not be had */
	if (ALLOC_MODE)
		AM.paused = true;
	if (sc->callbacks) {
		cblog_install(s, &cb);
		pfx_table_init(&pfxt, sim_pfx_cb);
		spki_table_init(&spkit, sim_spki_cb);
	} else {
		pfx_table_init(&pfxt, NULL);
		spki_table_init(&spkit, NULL);
	}
	if (ALLOC_MODE)
		AM.paused = false;
	sim_attach(s, &sock, &pfxt, &spkit);
	if (sc->cfg.others)
		sim_populate_others(s, &OTHER1, &OTHER2);
#ifdef SIM_TCP_WRAPS
	struct tr_socket tcp_tr;
	struct tr_tcp_config tcp_cfg = {.host = (char *)"cache.invalid", .port = (char *)"323", .data = s, .new_socket = sim_tcp_new_socket, .connect_timeout = 5};

	memset(&tcp_tr, 0, sizeof(tcp_tr));
	if (USE_TCP) {
		bool was = ALLOC_MODE && AM.paused;

		if (ALLOC_MODE)
			AM.paused = true;
		if (tr_tcp_init(&tcp_cfg, &tcp_tr) != TR_SUCCESS)
			exit(2);
		if (ALLOC_MODE)
			AM.paused = was;
		CNT("tcp/scenarios_over_the_real_tcp_transport");
	}
#endif
	if (rtr_init(&sock, USE_TCP ? &tcp_tr : &s->tr, &pfxt, &spkit, sc->cfg.refresh, sc->cfg.expire, sc->cfg.retry, sc->cfg.iv_mode, sim_state_cb, s,
		     NULL) != RTR_SUCCESS) {
		viol("C17", "C17:rtr_init-rejects-valid-intervals", "rtr_init rejected refresh %u expire %u retry %u", sc->cfg.refresh, sc->cfg.expire,
		     sc->cfg.retry);
		goto out;
	}
	sim_begin_phase(s);
	if (rtr_start(&sock) != RTR_SUCCESS) {
		fprintf(stderr, "rtr_start failed\n");
		exit(2);
	}
	sim_wait_parked(s);
	if (sc->restart_after_phase1) {
		sim_prepare_stop(s);
		rtr_stop(&sock);
		sim_after_stop(s);
		s->stop_request = false;
		CNT("sim/stop_start_cycles");
		cntf(1, "c07/stopped_in_state/%d", s->last_state);
		s->cfg = sc->cfg2;
		sim_on_restart(s);
		sim_begin_phase(s);
		sim_disturb(s);
		if (rtr_start(&sock) != RTR_SUCCESS) {
			fprintf(stderr, "rtr_start (2) failed\n");
			exit(2);
		}
		sim_wait_parked(s);
	}
	if (sc->probe)
		post_exchange_probe(s);
	if (sc->final_convergence && !s->spin_reported)
		sim_final_convergence_check(s);
	cblog_check_against_tables(s, "end-of-scenario");
	sim_check_others(s, "end-of-scenario");
	if (ALLOC_MODE && sock.state == RTR_ESTABLISHED)
		alloc_recovery_probe(s);
	cnt_max("max:sim/queries_in_one_scenario", (uint64_t)s->queries);
	cnt_add("sim/queries", (uint64_t)s->queries);
	cnt_add("sim/transport_calls", (uint64_t)s->tcalls);
	cnt_add("sim/opens", (uint64_t)s->opens);
	nontrivial(hmix(s->trace_hash, hmix((uint64_t)s->queries, (uint64_t)s->opens)));
	if (keep)
		memcpy(keep, s, sizeof(*s));
	sim_prepare_stop(s);
	rtr_stop(&sock);
	sim_after_stop(s);
out:
#ifdef SIM_TCP_WRAPS
	if (USE_TCP && tcp_tr.free_fp)
		tr_free(&tcp_tr);
#endif
	pfx_table_free(&pfxt);
	if (s->cb && s->cb->enabled_p) {
		CNT("c09/table_free_checks");
		if (s->cb->np != 0)
			viol("C09", "C09:free-leaves-log-nonempty", "after pfx_table_free the replayed change log still holds %d records", s->cb->np);
	}
	spki_table_free(&spkit);
	if (ALLOC_MODE) {
		ALLOC_REQUESTS = AM.requests;
		if (AM.failures_injected)
			CNT("c18/sync/runs_with_injected_failure");
		if (ALLOC_FAIL_AT == 0 || AM.failures_injected == 0) {
			CNT("c18/sync/leak_checks");
			if (AM.live_blocks != 0 || AM.bad_free) {
				char key[96];

				snprintf(key, sizeof(key), "C18:sync:%s:%s", AM.bad_free ? "foreign-free" : "leak", sc->restart_after_phase1 ? "stop-mid-run" : "plain");
				viol("C18", key, "failure-free synchronisation scenario: %ld blocks (%ld bytes) still allocated after stop and table free, %lu bad frees",
				     AM.live_blocks, AM.live_bytes, AM.bad_free);
			}
		}
		am_reset();
		am_uninstall();
	}
	sim_free(s);
	return 0;
}

/* ------------------------------------------------------------------ C04: outcome digest and post-exchange probing */
static uint64_t LAST_OUTCOME;
static unsigned long LAST_RECORDS;
static uint64_t LAST_PARTS[5];

struct probe_ctx {
	struct sim *s;
	uint64_t h;
	unsigned long n;
};

static void probe_cb(const struct pfx_record *rec, void *d)
{
	struct probe_ctx *c = d;
	enum pfxv_state st;
	struct pfx_record *reason = NULL;
	unsigned int rl = 0;
	int full = rec->prefix.ver == LRTR_IPV4 ? 32 : 128;
	uint8_t qlen = rec->min_len > full ? (uint8_t)full : rec->min_len;
	struct prec p;

	prec_from_record(rec, &p);
	if (getenv("LF_DEBUG"))
		fprintf(stderr, "DBG rec fam%u %08x/%u-%u as%u own%d\n", p.fam, p.a[0], p.len, p.maxlen, p.asn, rec->socket == c->s->sock);
	c->h += hbytes(rec->socket == c->s->sock ? 1 : 2, &p, sizeof(p)); /* order independent */
	c->n++;
	/* hostile prefix lengths only bite when the table is searched: query what was stored */
	pfx_table_validate_r(c->s->pfxt, &reason, &rl, rec->asn, &rec->prefix, qlen, &st);
	c->h += hmix((uint64_t)st, rl);
	lrtr_free(reason);
	pfx_table_validate(c->s->pfxt, rec->asn ^ 1, &rec->prefix, (uint8_t)full, &st);
}

/* NB: the enumeration callback runs under the table's read lock; validation takes the read lock again,
 * which POSIX allows for rwlocks and glibc grants as long as no writer waits (single thread here). */
static void post_exchange_probe(struct sim *s)
{
	struct probe_ctx c = {s, 0, 0};
	static struct pfx_record recs[4096];
	(void)recs;

	MON_PAUSE();
	pfx_table_for_each_ipv4_record(s->pfxt, probe_cb, &c);
	pfx_table_for_each_ipv6_record(s->pfxt, probe_cb, &c);
	for (int i = 0; i < N_SKI; i++) {
		struct spki_record *res = NULL;
		unsigned int n = 0;

		if (spki_table_search_by_ski(s->spkit, s->u->skis[i], &res, &n) == SPKI_SUCCESS) {
			for (unsigned int j = 0; j < n; j++) {
				if (getenv("LF_DEBUG"))
					fprintf(stderr, "DBG key ski%d as%u spki %016llx\n", i, res[j].asn, (unsigned long long)hbytes(3, res[j].spki, SPKI_SIZE));
				c.h += hbytes(3, res[j].spki, SPKI_SIZE) + res[j].asn;
			}
			c.n += n;
			lrtr_free(res);
		}
	}
	MON_RESUME();
	LAST_RECORDS = c.n;
	LAST_PARTS[0] = s->sent_hash;
	LAST_PARTS[1] = s->trace_hash;
	LAST_PARTS[2] = c.h;
	LAST_PARTS[3] = (uint64_t)s->sock->state;
	LAST_PARTS[4] = s->sock->serial_number;
	LAST_OUTCOME = hmix(hmix(s->sent_hash, s->trace_hash), hmix(c.h, (uint64_t)s->sock->state * 7 + s->sock->serial_number));
	CNT("c04/post_exchange_probes");
}

/* ------------------------------------------------------------------ scenario families */
static void add_event(struct simcfg *c, time_t at, int kind, uint32_t param)
{
	if (c->ntevent < MAX_TEVENT)
		c->tevent[c->ntevent++] = (struct tevent){VBASE + at, (uint8_t)kind, param, false};
}

static void gen_conv(struct scen *sc, struct rng *r, long c)
{
	scen_defaults(sc, r);
	sc->cfg.p_defect = 120 + (int)rndn(r, 200);
	sc->cfg.p_override = 60 + (int)rndn(r, 120);
	sc->cfg.p_tfault = (int)rndn(r, 3) == 0 ? 0 : (int)rndn(r, 25);
	sc->cfg.misbehave_until_query = 4 + rndn(r, 10);
	sc->cfg.iv_mode = (int)rndn(r, 4);
	if (rndp(r, 1, 2)) {
		pick_intervals(r, &sc->eod_iv[0], &sc->eod_iv[1], &sc->eod_iv[2], true);
	}
	int ne = (int)rndn(r, 8);
	time_t span = (time_t)(sc->cfg.refresh * (2 + rndn(r, 6)) + sc->cfg.retry * 3 + rndn(r, 300));

	for (int i = 0; i < ne; i++) {
		int kind = rndp(r, 1, 2) ? 1 : rndp(r, 2, 3) ? 2 : 3;

		add_event(&sc->cfg, (time_t)rndn(r, (uint32_t)span + 1), kind, kind == 1 ? 1 + rndn(r, 10) : rndn(r, 2));
	}
	if (c % 7 == 3) {
		sc->np = 400;
		sc->init_records = 150 + (int)rndn(r, 150); /* responses crossing the 100-PDU store increment */
		sc->nk = 60;
	}
	if (c % 21 == 3) {
		/* responses that make each of the client's three temporary PDU stores grow several times (the stores grow in
		 * steps, a slip in the step arithmetic shows from the third or fourth step on) */
		sc->np = 1000;
		sc->init_records = 2000 + (int)rndn(r, 1000); /* draws with repetition: some 850-950 distinct records */
		sc->nk = 320 + (int)rndn(r, MAX_K - 320);
		sc->init_keys = 4 * sc->nk; /* nearly all of them */
		/* every exchange costs in proportion to the data, and a conversation lasts until the convergence bound has
		 * passed: with a refresh interval of a second that is thousands of polls - here the client polls every
		 * quarter of an hour or less often, whatever the End of Data asks for */
		sc->cfg.refresh = 900 + rndn(r, 2000);
		sc->cfg.iv_mode = RTR_INTERVAL_MODE_IGNORE_ANY;
		CNT("sim/scenarios_with_responses_of_over_300_pdus_per_kind");
	}
	if (c % 4 == 1) {
		/* another socket on the same tables is stopped while this one is inside a response (any response, or not before
		 * a reload) */
		sc->cfg.other_leaves_at_byte = 8 + (long)rndn(r, 200);
		sc->cfg.other_leaves_in_a_reload = rndp(r, 2, 3);
	}
	if (c % 11 == 5)
		sc->no_data = true, add_event(&sc->cfg, (time_t)(1 + rndn(r, (uint32_t)span + 1)), 5, 0);
	if (c % 13 == 6) {
		/* one answer arrives a byte at a time, each byte well within any single receive timeout */
		sc->cfg.slow_query = 1 + (long)rndn(r, 3);
		sc->cfg.slow_gap = 20 + rndn(r, 39);
	}
	if (c % 9 == 4) {
		/* an unsolicited PDU that arrives slowly around the time the first refresh deadline passes, then new data */
		time_t t = (time_t)sc->cfg.refresh > 3 ? (time_t)sc->cfg.refresh - 1 - (time_t)rndn(r, 3) : 1;
		uint32_t gap = 3 + rndn(r, 5);

		add_event(&sc->cfg, t, 8, gap);
		add_event(&sc->cfg, t + gap + 2, 1, 3);
	}
}

static const int POSCLASS[] = {0, -2, -3, -4, -5, -1};

static void gen_defect(struct scen *sc, struct rng *r, long c)
{
	int d = 1 + (int)(c % (D_COUNT - 1));
	int pc = (int)((c / (D_COUNT - 1)) % 6);
	int kind = (int)((c / ((D_COUNT - 1) * 6)) % 3); /* 0 first sync, 1 delta, 2 reload after Cache Reset */
	int q = 0;

	scen_defaults(sc, r);
	sc->cfg.iv_mode = (int)rndn(r, 4);
	if (kind >= 1) {
		q = 1;
		add_event(&sc->cfg, 1, 1, 2 + rndn(r, 8));
		if (rndp(r, 1, 2))
			add_event(&sc->cfg, 2, 2, 0);
	}
	if (kind == 2) {
		sc->cfg.xplan[1].override = AO_CACHE_RESET;
		sc->cfg.xplan[1].pos = -1;
		q = 2;
	}
	sc->cfg.xplan[q].defect = (uint8_t)d;
	sc->cfg.xplan[q].pos = (int16_t)POSCLASS[pc];
	sc->cfg.xplan[q].param = rnd32(r);
	sc->cfg.xplan[q].ver_byte = (uint8_t)(rndp(r, 1, 2) ? (rndp(r, 1, 2) ? 0 : 2) : 255);
	sc->cfg.nxplan = q + 1;
	/* compound responses: benign announce/withdraw pairs ahead of the defect (they must be undone too) */
	if ((c / ((D_COUNT - 1) * 18)) % 2 == 1)
		sc->cfg.xplan[q].churn_first = (uint8_t)(1 + rndn(r, 3));
	if ((c / ((D_COUNT - 1) * 18)) % 4 == 3) {
		sc->np = 300;
		sc->init_records = 120 + (int)rndn(r, 100);
		sc->nk = 40;
	}
}

/* base conversation used by the fault enumeration: first sync, delta, cache reset + reload, notify */
static void gen_fault_base(struct scen *sc, struct rng *r)
{
	scen_defaults(sc, r);
	sc->cfg.refresh = 30 + rndn(r, 100);
	sc->cfg.retry = 1 + rndn(r, 20);
	sc->cfg.expire = 600 + rndn(r, 2000);
	sc->cfg.chunk_rx = rndp(r, 1, 2) ? CH_MAX : CH_HEADER_SPLIT;
	sc->cfg.chunk_tx = rndp(r, 1, 2) ? CH_MAX : CH_HEADER_SPLIT;
	add_event(&sc->cfg, 5, 1, 4);
	add_event(&sc->cfg, 9, 2, 0);
	add_event(&sc->cfg, 12, 1, 3);
	sc->cfg.xplan[2].override = AO_CACHE_RESET;
	sc->cfg.xplan[2].pos = -1;
	sc->cfg.xplan[0].pos = sc->cfg.xplan[1].pos = sc->cfg.xplan[3].pos = -1;
	sc->cfg.nxplan = 4;
	add_event(&sc->cfg, (time_t)sc->cfg.refresh * 2 + 20, 1, 5);
}

static const int FKINDS[] = {F_ERROR, F_WOULDBLOCK, F_INTR, F_CLOSED};

static void gen_faults(struct scen *sc, struct rng *r, long c, uint64_t seed)
{
	/* 512 cases share one base conversation: slot -> (call index, kind) singly, then pairs and triples */
	long base_id = c / 512, slot = c % 512;
	struct rng rb;
	static struct sim dry;
	struct scen base;
	long ncalls;

	rng_seed(&rb, seed ^ 0xba5e, (uint64_t)base_id);
	gen_fault_base(&base, &rb);
	/* dry run: how many transport calls does the undisturbed conversation make up to the end of its script? */
	{
		struct scen d = base;

		/* the dry run's monitor output is discarded: the same conversation is judged in the real run */
		VO.muted = true;
		d.cfg.c08_mode = false;
		d.cfg.horizon = (time_t)d.cfg.refresh * 3 + 60;
		d.final_convergence = false;
		run_scen(&d, mix64(seed, (uint64_t)base_id), &dry);
		ncalls = dry.tcalls;
		VO.muted = false;
		CNT("faults/dry_runs");
	}
	*sc = base;
	(void)r;
	if (ncalls < 8)
		ncalls = 8;
	struct rng rs;

	rng_seed(&rs, seed ^ 0x5107, (uint64_t)c);
	if (slot < 4 * 96) {
		long k = (slot / 4) * ncalls / 96; /* spread over the whole conversation */

		sc->cfg.tfault[0] = (struct tfault){k + 1, FKINDS[slot % 4]};
		sc->cfg.ntfault = 1;
		cntf(1, "faults/single/kind%d", FKINDS[slot % 4]);
	} else {
		int nf = 2 + (int)rndn(&rs, 5);

		for (int i = 0; i < nf; i++)
			sc->cfg.tfault[i] = (struct tfault){1 + rndn(&rs, (uint32_t)ncalls + 10), FKINDS[rndn(&rs, 4)]};
		sc->cfg.ntfault = nf;
		if (rndp(&rs, 1, 2)) {
			int q = (int)rndn(&rs, 4);

			sc->cfg.xplan[q].defect = (uint8_t)(1 + rndn(&rs, D_COUNT - 1));
			sc->cfg.xplan[q].pos = -1;
			sc->cfg.xplan[q].ver_byte = 2;
		}
		cntf(1, "faults/multi/%d", nf);
	}
}

static void gen_expiry(struct scen *sc, struct rng *r, long c)
{
	static const int RETRY[] = {1, 1, 2, 7, 60};

	scen_defaults(sc, r);
	sc->cfg.iv_mode = RTR_INTERVAL_MODE_IGNORE_ANY;
	sc->cfg.expire = rndp(r, 2, 3) ? 600 + rndn(r, 3) : 600 + rndn(r, 3000);
	sc->cfg.retry = (unsigned int)RETRY[rndn(r, 5)];
	sc->cfg.refresh = 1 + rndn(r, 300);
	if (c % 5 == 4) {
		/* intervals pushed by End of Data */
		sc->cfg.iv_mode = RTR_INTERVAL_MODE_ACCEPT_ANY;
		sc->eod_iv[0] = 1 + rndn(r, 200);
		sc->eod_iv[1] = 1 + rndn(r, 5);
		sc->eod_iv[2] = 600 + rndn(r, 400);
	}
	unsigned int E = sc->cfg.iv_mode == RTR_INTERVAL_MODE_ACCEPT_ANY ? sc->eod_iv[2] : sc->cfg.expire;
	unsigned int R = sc->cfg.iv_mode == RTR_INTERVAL_MODE_ACCEPT_ANY ? sc->eod_iv[1] : sc->cfg.retry;
	static const int DUR[] = {-1, 0, 1, 2, 3};
	int dsel = (int)(c % 7);
	time_t dur = dsel < 5 ? (time_t)E + DUR[dsel] : dsel == 5 ? (time_t)E + R : (time_t)E * 3;

	sc->cfg.outage_dur_class = dsel;
	sc->cfg.outage_mode = (int)((c / 7) % 9);
	sc->cfg.outage_from = 1 + rndn(r, 50);
	if (c % 6 == 2)
		sc->cfg.outage_from = 0; /* down from the very start: the client has no session yet */
	sc->cfg.outage_until = sc->cfg.outage_from + dur + rndn(r, 3);
	/* data changes during the outage so that catching up afterwards is real */
	add_event(&sc->cfg, sc->cfg.outage_from + 5, 1, 3);
	if (sc->cfg.outage_mode >= 5)
		add_event(&sc->cfg, 0, 2, 0);
	/* one scenario in four has no records of other sources in the tables: after the purge they are empty, and the
	 * reload that follows starts from a table without any IPv4 / IPv6 tree */
	sc->cfg.others = rndp(r, 3, 4);
	if (!sc->cfg.others)
		CNT("c08/expiry_scenarios_on_otherwise_empty_tables");
	if (c % 5 == 1) {
		/* the cache turns into a version-0 cache right after the first synchronisation and says so at once (notify):
		 * the session is downgraded in place while router keys learned under version 1 are held; the outage then
		 * has to take them away as well */
		add_event(&sc->cfg, 1, 4, 0);
		add_event(&sc->cfg, 2, 2, 0);
		if (sc->cfg.outage_from < 8) {
			sc->cfg.outage_until += 8 - sc->cfg.outage_from;
			sc->cfg.outage_from = 8;
		}
		CNT("c07/scenarios_with_in_place_downgrade");
	}
}

static void gen_stops(struct scen *sc, struct rng *r, long c)
{
	gen_conv(sc, r, c);
	sc->cfg.c08_mode = false;
	sc->cfg.stop_at_parkable = 1 + (long)(c % 80);
	if (c % 4 == 3) {
		/* rtr_stop() while the FSM thread is in the middle of applying a response */
		sc->cfg.stop_at_parkable = 0;
		sc->cfg.stop_in_callback = 1 + (long)rndn(r, 12);
		sc->cfg.horizon = 200000; /* backstop if that many callbacks never happen */
		sc->callbacks = true;
	}
	if (c % 5 == 1) {
		/* in-place downgrade to version 0 before the stop (see gen_expiry) */
		add_event(&sc->cfg, 1, 4, 0);
		add_event(&sc->cfg, 2, 2, 0);
		CNT("c07/scenarios_with_in_place_downgrade");
	}
	sc->restart_after_phase1 = 1;
	sc->cfg2 = sc->cfg;
	sc->cfg2.stop_at_parkable = 0;
	sc->cfg2.stop_in_callback = 0;
	sc->cfg2.horizon = 0;
	sc->cfg2.c08_mode = true;
	sc->cfg2.p_defect = sc->cfg2.p_override = sc->cfg2.p_tfault = 0;
	sc->cfg2.nxplan = 0;
	sc->cfg2.ntfault = 0;
}

static void gen_version(struct scen *sc, struct rng *r, long c)
{
	static const uint8_t VB[] = {0, 1, 2, 255, 0, 0};

	scen_defaults(sc, r);
	sc->cfg.iv_mode = (int)rndn(r, 4);
	int fam = (int)(c % 8);

	switch (fam) {
	case 0: /* v0-only cache answering in v0 */
	case 1: /* v0-only cache answering with Unsupported-Version report */
	case 2: /* v0-only cache that hangs up */
		sc->cache_version = 0;
		sc->v0_mode = fam;
		break;
	case 3: /* cache downgrades mid-life */
		add_event(&sc->cfg, (time_t)(1 + rndn(r, sc->cfg.refresh * 3 + 10)), 4, rndn(r, 3));
		break;
	case 4: { /* Error Report code 4 with assorted version bytes at assorted queries */
		int q = (int)rndn(r, 3);

		if (rndp(r, 1, 2)) {
			/* ... also after a legitimate downgrade: the version must never go up again */
			sc->cache_version = 0;
			sc->v0_mode = (int)rndn(r, 2);
			q = 1 + (int)rndn(r, 3);
		}

		sc->cfg.xplan[q].override = AO_ERR_REPORT;
		sc->cfg.xplan[q].param = 4;
		sc->cfg.xplan[q].ver_byte = VB[rndn(r, 6)];
		sc->cfg.xplan[0].pos = sc->cfg.xplan[1].pos = sc->cfg.xplan[2].pos = sc->cfg.xplan[3].pos = -1;
		sc->cfg.nxplan = q + 1;
		break;
	}
	case 5: { /* foreign version byte on one PDU */
		int q = (int)rndn(r, 3);

		sc->cfg.xplan[q].defect = D_WRONG_VERSION;
		sc->cfg.xplan[q].pos = (int16_t)POSCLASS[rndn(r, 6)];
		sc->cfg.xplan[q].ver_byte = VB[rndn(r, 4)];
		sc->cfg.xplan[0].pos = q ? -1 : sc->cfg.xplan[0].pos;
		sc->cfg.xplan[1].pos = q == 1 ? sc->cfg.xplan[1].pos : -1;
		sc->cfg.nxplan = q + 1;
		add_event(&sc->cfg, 1, 1, 3);
		break;
	}
	case 6: /* End of Data in the other version's format */
		sc->cfg.xplan[0].defect = D_EOD_WRONG_FORMAT;
		sc->cfg.xplan[0].pos = -1;
		sc->cfg.nxplan = 1;
		sc->cache_version = rndp(r, 1, 2) ? 1 : 0;
		sc->v0_mode = 0;
		break;
	default: /* mixture with random misbehaviour */
		sc->cfg.p_defect = 150;
		sc->cfg.p_override = 150;
		sc->cfg.misbehave_until_query = 6;
		sc->cache_version = rndp(r, 1, 3) ? 0 : 1;
		sc->v0_mode = (int)rndn(r, 3);
		break;
	}
	add_event(&sc->cfg, (time_t)(2 + rndn(r, 50)), 1, 2);
}

static const uint32_t IVB[3][8] = {
	/* refresh */ {0, 1, 2, 86399, 86400, 86401, 0xffffffffu, 3600},
	/* retry   */ {0, 1, 2, 7199, 7200, 7201, 0xffffffffu, 600},
	/* expire  */ {0, 599, 600, 601, 172799, 172800, 172801, 0xffffffffu}};

static void gen_intervals(struct scen *sc, struct rng *r, long c)
{
	scen_defaults(sc, r);
	sc->cfg.c08_mode = false;
	sc->final_convergence = false;
	sc->cfg.max_queries = 1 + (c % 3 == 2 ? 2 : 0);
	sc->cfg.iv_mode = (int)(c % 4);
	long x = c / 4;

	if (x < 512) {
		sc->eod_iv[0] = IVB[0][x % 8];
		sc->eod_iv[1] = IVB[1][(x / 8) % 8];
		sc->eod_iv[2] = IVB[2][(x / 64) % 8];
	} else {
		for (int i = 0; i < 3; i++)
			sc->eod_iv[i] = rndp(r, 1, 3) ? IVB[i][rndn(r, 8)] : rnd32(r);
	}
	sc->cache_version = (x % 5 == 4) ? 0 : 1;
	sc->v0_mode = 0;
	/* initial settings at the range boundaries */
	static const unsigned int RF[] = {1, 86400, 3600}, RT[] = {1, 7200, 600}, EX[] = {600, 172800, 7200};

	sc->cfg.refresh = RF[rndn(r, 3)];
	sc->cfg.retry = RT[rndn(r, 3)];
	sc->cfg.expire = EX[rndn(r, 3)];
	if (sc->cfg.max_queries > 1) {
		/* poll timing: a notify during the established wait, and a data change */
		add_event(&sc->cfg, 3, 1, 2);
		if (rndp(r, 1, 2))
			add_event(&sc->cfg, 4 + rndn(r, 20), 2, 0);
	}
	if (x % 3 == 1) {
		/* the application changes the interval mode while the first response is on its way (after the Cache Response,
		 * somewhere in the payload, or just behind the End of Data) */
		sc->cfg.mode_switch_at_byte = 8 + (long)rndn(r, rndp(r, 1, 2) ? 4 : 120);
		sc->cfg.mode_switch_to = (int)((c % 4 + 1 + rndn(r, 3)) % 4);
	}
	if (x % 7 == 3) {
		/* a cache without data: the response is Cache Response + End of Data and nothing else - the intervals in
		 * that End of Data count all the same */
		sc->init_records = 0;
		sc->init_keys = 0;
		sc->cfg.ntevent = 0;
		CNT("c17/scenarios_with_payload_less_responses");
	}
}

/* a receive call is interrupted (TR_INTR) after exactly k delivered bytes of the first response, for every k: wherever
 * the client is torn out of the stream, the response takes effect as sent or not at all.  All records are announced,
 * among them the two whose IPv6 Prefix PDU carries the image of an IPv4 Prefix PDU 12 bytes in. */
static void gen_intr(struct scen *sc, struct rng *r, long c)
{
	scen_defaults(sc, r);
	sc->np = 12 + (int)rndn(r, 8);
	sc->nk = 4;
	sc->init_records = sc->np;
	sc->announce_cap = sc->np;
	sc->cfg.refresh = 30 + rndn(r, 30);
	sc->cfg.retry = 1 + rndn(r, 5);
	sc->cfg.expire = 600;
	sc->cfg.chunk_rx = CH_MAX;
	sc->cfg.chunk_tx = CH_MAX;
	sc->cfg.intr_conn = 1;
	sc->cfg.intr_at_byte = 1 + c % 640;
	sc->cfg.others = rndp(r, 1, 2);
	sc->cache_version = rndp(r, 1, 4) ? 0 : 1;
	add_event(&sc->cfg, (time_t)sc->cfg.refresh + 5, 1, 3);
}

static void gen_reload(struct scen *sc, struct rng *r, long c)
{
	scen_defaults(sc, r);
	sc->np = 64 + (c % 8 == 7 ? 300 : 0);
	sc->nk = 16 + (c % 8 == 7 ? 60 : 0);
	sc->init_records = 10 + (int)rndn(r, sc->np / 2);
	sc->announce_cap = sc->np;
	/* q0 full, then alternating forced reloads (Cache Reset / cache restart) with overlapping data */
	for (int q = 1; q < 8; q += 2) {
		sc->cfg.xplan[q].override = rndp(r, 1, 2) ? AO_CACHE_RESET : AO_NEW_SESSION;
		sc->cfg.xplan[q].pos = -1;
		sc->cfg.xplan[q + 1].pos = -1;
		if (rndp(r, 1, 5))
			sc->cfg.xplan[q + 1].defect = (uint8_t)(rndp(r, 1, 2) ? D_DUP_ANNOUNCE : D_TRUNCATE_SILENT);
	}
	sc->cfg.xplan[0].pos = -1;
	sc->cfg.nxplan = 9;
	if (c % 3 == 1) {
		/* another socket on the same tables is stopped while this one is in the middle of a reload */
		sc->cfg.other_leaves_at_byte = 8 + (long)rndn(r, 120);
		sc->cfg.other_leaves_in_a_reload = true;
	}
	for (int i = 0; i < 6; i++)
		add_event(&sc->cfg, (time_t)(1 + i * (sc->cfg.refresh + 1)), 1, 1 + rndn(r, 20));
	if (c % 5 == 2) {
		/* the cache loses all its prefixes (or everything) before one of the reloads and gets data again later: a reload
		 * whose complete new set is empty */
		int at = 1 + (int)rndn(r, 4);

		sc->cfg.tevent[at].param = rndp(r, 1, 2) ? SIM_WIPE_PREFIXES : SIM_WIPE_ALL;
	}
}

/* C18: a base conversation that reaches the allocation sites of a synchronisation: temporary PDU stores
 * (> 100 PDUs), node / element / key allocations, hash-table growth (> 33 keys), shadow tables and copies */
static void gen_alloc_base(struct scen *sc, struct rng *r)
{
	scen_defaults(sc, r);
	sc->np = 600;
	sc->nk = BASE_K;
	sc->init_records = 380 + (int)rndn(r, 100);
	sc->init_keys = 400;
	sc->cfg.refresh = 30 + rndn(r, 50);
	sc->cfg.retry = 1 + rndn(r, 5);
	sc->cfg.expire = 600 + rndn(r, 600);
	sc->cfg.chunk_rx = CH_MAX;
	sc->cfg.chunk_tx = CH_MAX;
	add_event(&sc->cfg, 5, 1, 12);
	sc->cfg.xplan[0].pos = sc->cfg.xplan[1].pos = sc->cfg.xplan[3].pos = -1;
	sc->cfg.xplan[2].override = AO_CACHE_RESET;
	sc->cfg.xplan[2].pos = -1;
	sc->cfg.nxplan = 4;
	add_event(&sc->cfg, (time_t)sc->cfg.refresh + 10, 1, 9);
	sc->final_convergence = true;
}

/* small conversation whose incremental responses fail half way (withdrawal of an unknown record, duplicate
 * announcement): the client has to take back what it applied, and taking back a withdrawal allocates - with few
 * allocations in the whole conversation every single one of them, including those, is failed in turn */
static void gen_alloc_undo_base(struct scen *sc, struct rng *r)
{
	scen_defaults(sc, r);
	sc->np = 60;
	sc->nk = 10;
	sc->init_records = 30 + (int)rndn(r, 10);
	sc->init_keys = 6;
	sc->cfg.refresh = 30 + rndn(r, 50);
	sc->cfg.retry = 1 + rndn(r, 5);
	sc->cfg.expire = 600 + rndn(r, 600);
	sc->cfg.chunk_rx = CH_MAX;
	sc->cfg.chunk_tx = CH_MAX;
	for (int i = 0; i < 6; i++)
		sc->cfg.xplan[i].pos = -1;
	add_event(&sc->cfg, 5, 1, 16);
	sc->cfg.xplan[1].defect = D_WITHDRAW_UNKNOWN;
	add_event(&sc->cfg, (time_t)sc->cfg.refresh + 10, 1, 16);
	sc->cfg.xplan[3].defect = D_DUP_ANNOUNCE;
	add_event(&sc->cfg, 2 * (time_t)sc->cfg.refresh + 20, 1, 16);
	sc->cfg.xplan[5].defect = rndp(r, 1, 2) ? D_WITHDRAW_UNKNOWN : D_DUP_ANNOUNCE;
	sc->cfg.nxplan = 6;
	sc->final_convergence = true;
}

/* a cache that has no router keys at first: the reload after its Cache Reset builds the shadow key table without
 * copying or adding a single key - whatever goes wrong with that table then shows only when keys arrive later */
static void gen_alloc_keyless_base(struct scen *sc, struct rng *r)
{
	scen_defaults(sc, r);
	sc->np = 40;
	sc->nk = 8;
	sc->init_records = 20 + (int)rndn(r, 10);
	sc->init_keys = -1;
	sc->cfg.others = false;
	sc->cfg.refresh = 30 + rndn(r, 50);
	sc->cfg.retry = 1 + rndn(r, 5);
	sc->cfg.expire = 600 + rndn(r, 600);
	sc->cfg.chunk_rx = CH_MAX;
	sc->cfg.chunk_tx = CH_MAX;
	for (int i = 0; i < 5; i++)
		sc->cfg.xplan[i].pos = -1;
	add_event(&sc->cfg, 2, 2, 0);
	sc->cfg.xplan[1].override = AO_CACHE_RESET;
	add_event(&sc->cfg, (time_t)sc->cfg.refresh + 10, 1, SIM_ADD_KEYS);
	add_event(&sc->cfg, 2 * (time_t)sc->cfg.refresh + 20, 1, 6);
	sc->cfg.nxplan = 5;
	sc->final_convergence = true;
}

static long ALLOC_UNDO_ONLY; /* argument undo_only=1: rollback conversations only (C03's own run) */
static long ALLOC_BASE_ID;

static void gen_allocsync(struct scen *sc, struct rng *r, long c, uint64_t seed)
{
	long base_id = ALLOC_UNDO_ONLY ? 3 * (c / 1024) + 1 : c / 1024, slot = c % 1024;
	struct rng rb;
	static struct sim dry;

	(void)r;
	ALLOC_BASE_ID = base_id;
	rng_seed(&rb, seed ^ 0xa110c, (uint64_t)base_id);
	if (base_id % 3 == 1)
		gen_alloc_undo_base(sc, &rb);
	else if (base_id % 3 == 2)
		gen_alloc_keyless_base(sc, &rb);
	else
		gen_alloc_base(sc, &rb);
	if (slot >= 1000) {
		/* failure-free variants: leak accounting, incl. rtr_stop at the k-th cancellation point */
		ALLOC_FAIL_AT = 0;
		if (slot > 1000) {
			sc->cfg.c08_mode = false;
			sc->cfg.stop_at_parkable = 1 + (slot - 1000) * 7;
			sc->restart_after_phase1 = 1;
			sc->cfg2 = sc->cfg;
			sc->cfg2.stop_at_parkable = 0;
			sc->cfg2.c08_mode = true;
		}
		return;
	}
	struct scen d = *sc;

	VO.muted = true;
	ALLOC_FAIL_AT = 0;
	run_scen(&d, mix64(seed, (uint64_t)base_id), &dry);
	VO.muted = false;
	unsigned long n = ALLOC_REQUESTS ? ALLOC_REQUESTS : 1;

	ALLOC_FAIL_AT = 1 + (unsigned long)slot * n / 1000;
	cnt_max(base_id % 3 == 1 ? "max:c18/sync/allocations_in_rollback_conversation" : base_id % 3 == 2 ? "max:c18/sync/allocations_in_keyless_conversation" : "max:c18/sync/allocations_in_base_conversation", n);
}

/* ------------------------------------------------------------------ C04: byte-stream fuzzing */
static void fz_w32(uint8_t *o, uint32_t v)
{
	o[0] = v >> 24;
	o[1] = v >> 16;
	o[2] = v >> 8;
	o[3] = v;
}

static const uint32_t FZ_LEN[] = {0, 1, 7, 8, 9, 12, 20, 24, 32, 3247, 3248, 3249, 65535, 65536, 0x7fffffffu, 0x80000000u, 0xffffffffu,
				  /* too big, with the low 16 bits of a valid length */ 0x00010008u, 0x00010014u, 0x00010018u, 0x00010020u, 0xffff0014u};
#define N_FZ_LEN ((uint32_t)(sizeof(FZ_LEN) / sizeof(FZ_LEN[0])))
static const uint8_t FZ_BYTE[] = {0, 1, 2, 31, 32, 33, 127, 128, 129, 254, 255};

/* structure-aware stream: a valid response over the universe, then mutations */
static size_t fuzz_rawgen(struct sim *s, uint8_t *out, size_t cap, uint64_t fseed, int where)
{
	struct rng r;
	size_t n = 0, off[600];
	int npdu = 0;
	int av = s->mv;
	int kind;

	r.s = fseed ^ ((uint64_t)(where + 2) * 0x9e3779b97f4a7c15ULL);
	kind = (int)rndn(&r, 100);
	if (kind < 8) {
		/* pure random bytes */
		n = 1 + rndn(&r, 400);
		for (size_t i = 0; i < n; i++)
			out[i] = (uint8_t)rnd32(&r);
		if (rndp(&r, 1, 2) && n >= 8) {
			out[0] = (uint8_t)av; /* make the header plausible so that parsing goes deeper */
			out[1] = (uint8_t)rndn(&r, 12);
			fz_w32(out + 4, FZ_LEN[rndn(&r, N_FZ_LEN)]);
		}
		return n;
	}
	/* a well-formed answer */
	off[npdu++] = n;
	if (where >= 0) {
		n += pdu_cache_response(out + n, av, s->cache.session);
	} else {
		n += pdu_notify(out + n, av, s->cache.session, s->cache.serial + 1);
	}
	int nd = (int)rndn(&r, 24);

	for (int i = 0; i < nd && n + 200 < cap && npdu < 590; i++) {
		off[npdu++] = n;
		if (av == 1 && rndp(&r, 1, 5))
			n += pdu_key(out + n, av, &s->u->k[rndn(&r, (uint32_t)s->u->nk)], 1);
		else
			n += pdu_prefix(out + n, av, &s->u->p[rndn(&r, (uint32_t)s->u->np)], (uint8_t)(rndp(&r, 4, 5) ? 1 : 0));
	}
	if (rndp(&r, 1, 12)) {
		off[npdu++] = n;
		n += pdu_error(out + n, av, (uint16_t)rndn(&r, 10), out, 8, "fuzz");
	}
	off[npdu++] = n;
	n += pdu_eod(out + n, av, s->cache.session, s->cache.serial + 1, 3600, 600, 7200);
	off[npdu] = n;
	/* mutations */
	int nmut = kind < 20 ? 0 : 1 + (int)rndn(&r, 3);

	for (int m = 0; m < nmut; m++) {
		int pi = (int)rndn(&r, (uint32_t)npdu);
		uint8_t *p = out + off[pi];
		size_t plen = off[pi + 1] - off[pi];

		switch (rndn(&r, 10)) {
		case 0: /* length field */
			fz_w32(p + 4, rndp(&r, 2, 3) ? FZ_LEN[rndn(&r, N_FZ_LEN)] : (uint32_t)plen + rndn(&r, 9) - 4);
			break;
		case 1: /* type */
			p[1] = rndp(&r, 1, 2) ? (uint8_t)rndn(&r, 13) : (uint8_t)rnd32(&r);
			break;
		case 2: /* version */
			p[0] = FZ_BYTE[rndn(&r, 11)];
			break;
		case 3: /* flags / prefix length / max length / zero byte of a prefix PDU, flags of a key PDU */
			if (plen >= 12)
				p[8 + rndn(&r, 4)] = FZ_BYTE[rndn(&r, 11)];
			if (rndp(&r, 1, 3))
				p[2 + rndn(&r, 2)] = FZ_BYTE[rndn(&r, 11)];
			break;
		case 4: /* any payload byte */
			if (plen > 8)
				p[8 + rndn(&r, (uint32_t)plen - 8)] = (uint8_t)rnd32(&r);
			break;
		case 5: /* nested lengths of an Error Report */
			if (p[1] == 10 && plen >= 16) {
				fz_w32(p + 8, rndp(&r, 1, 2) ? FZ_LEN[rndn(&r, N_FZ_LEN)] : rndn(&r, 64));
				if (rndp(&r, 1, 2))
					fz_w32(p + plen - 8, FZ_LEN[rndn(&r, N_FZ_LEN)]);
			} else {
				fz_w32(p + 4, FZ_LEN[rndn(&r, N_FZ_LEN)]);
			}
			break;
		case 6: /* session id / reserved */
			p[2] = (uint8_t)rnd32(&r);
			p[3] = (uint8_t)rnd32(&r);
			break;
		case 7: { /* duplicate a PDU at the end of the data section */
			if (n + plen < cap && npdu < 598) {
				memmove(out + off[npdu - 1] + plen, out + off[npdu - 1], n - off[npdu - 1]);
				memcpy(out + off[npdu - 1], p, plen);
				n += plen;
				/* offsets after the insertion are stale: stop mutating */
				m = nmut;
			}
			break;
		}
		case 8: /* truncate the stream */
			n = off[pi] + rndn(&r, (uint32_t)plen + 1);
			m = nmut;
			break;
		default: /* 32-bit field at a 4-byte boundary */
			if (plen >= 12)
				fz_w32(p + 8 + 4 * rndn(&r, (uint32_t)(plen - 8) / 4), rndp(&r, 1, 2) ? FZ_LEN[rndn(&r, N_FZ_LEN)] : rnd32(&r));
			break;
		}
	}
	return n;
}

static void gen_fuzz(struct scen *sc, struct rng *r, long c, uint64_t seed)
{
	scen_defaults(sc, r);
	sc->np = 32;
	sc->nk = 8;
	sc->init_records = 10;
	sc->cfg.refresh = 3600;
	sc->cfg.retry = 600;
	sc->cfg.expire = 7200;
	sc->cfg.iv_mode = (int)rndn(r, 4);
	sc->cfg.chunk_tx = CH_MAX;
	sc->cfg.rawgen = fuzz_rawgen;
	sc->cfg.fuzz_seed = mix64(seed ^ 0xf022, (uint64_t)c);
	sc->cfg.raw_close_after = rndp(r, 1, 3);
	sc->cache_version = rndp(r, 1, 6) ? 0 : 1;
	sc->v0_mode = 0;
	int shape = (int)(c % 4);

	if (shape == 0) {
		/* the very first answer is the fuzzed stream (rtr_sync on an empty socket) */
		sc->cfg.xplan[0].override = AO_RAW;
		sc->cfg.nxplan = 1;
	} else if (shape <= 2) {
		/* genuine first synchronisation, then a fuzzed answer to the Serial Query */
		sc->cfg.xplan[0].pos = -1;
		sc->cfg.xplan[1].override = AO_RAW;
		sc->cfg.nxplan = 2;
		add_event(&sc->cfg, 10, 1, 3);
	} else {
		/* fuzzed bytes arrive while the client idles in rtr_wait_for_sync */
		sc->cfg.xplan[0].pos = -1;
		sc->cfg.nxplan = 1;
		add_event(&sc->cfg, 100 + rndn(r, 3000), 7, 0);
	}
	sc->cfg.c08_mode = false;
	sc->cfg.horizon = 3600 * 2 + 700; /* one more poll after the fuzzed exchange */
	sc->final_convergence = false;
	sc->probe = true;
	sc->callbacks = rndp(r, 1, 2);
}

static const char *CHN[] = {"max", "one-byte", "random", "header-split"};

static void run_fuzz_case(struct rng *r, long c, uint64_t seed)
{
	static struct scen sc;
	uint64_t ref = 0;
	unsigned long refn = 0;
	static const int CHS[] = {CH_MAX, CH_ONE, CH_RANDOM, CH_HEADER_SPLIT};

	gen_fuzz(&sc, r, c, seed);
	for (int i = 0; i < 4; i++) {
		struct scen one = sc;

		one.cfg.chunk_rx = CHS[i];
		if (i > 0) {
			/* the repeated runs only compare outcomes: their monitor verdicts would be duplicates */
			VO.muted = true;
		}
		run_scen(&one, mix64(seed, (uint64_t)c), NULL);
		VO.muted = false;
		CNT("c04/streams_x_chunkings");
		if (i == 0) {
			ref = LAST_OUTCOME;
			refn = LAST_RECORDS;
		} else if (LAST_OUTCOME != ref) {
			char key[96];

			snprintf(key, sizeof(key), "C04:outcome-depends-on-read-segmentation:%s", CHN[i]);
			viol("C04", key, "the same byte stream read in %s chunks gave a different outcome than with maximal reads (bytes sent / state sequence / table contents digest %016llx vs %016llx, %lu vs %lu records)",
			     CHN[i], (unsigned long long)LAST_OUTCOME, (unsigned long long)ref, LAST_RECORDS, refn);
		}
	}
	{
		/* once more with transport errors interleaved at arbitrary calls: outcomes legitimately differ, so this
		 * run is judged for safety only (sanitizers, assertions, spin monitors) */
		struct scen one = sc;

		one.cfg.chunk_rx = CH_RANDOM;
		one.cfg.p_tfault = 40;
		one.cfg.misbehave_until_query = 6;
		one.cfg.fuzz_seed = sc.cfg.fuzz_seed;
		VO.muted = true;
		run_scen(&one, mix64(seed, (uint64_t)c) ^ 0xfa17, NULL);
		VO.muted = false;
		CNT("c04/streams_with_transport_errors");
	}
	nontrivial(hmix(ref, (uint64_t)refn));
	if (want_sample())
		sample("{\"shape\":%ld,\"fuzz_seed\":\"%016llx\",\"records_in_tables_afterwards\":%lu,\"outcome_digest\":\"%016llx\"}", c % 4,
		       (unsigned long long)sc.cfg.fuzz_seed, refn, (unsigned long long)ref);
}

/* rtr_init must reject exactly the out-of-range interval triples */
static void intervals_init_case(long c)
{
	struct rtr_socket sock;
	struct tr_socket tr;
	struct pfx_table pfxt;
	struct spki_table spkit;
	uint32_t rf = IVB[0][c % 8], rt = IVB[1][(c / 8) % 8], ex = IVB[2][(c / 64) % 8];
	bool ok = rf >= 1 && rf <= 86400 && rt >= 1 && rt <= 7200 && ex >= 600 && ex <= 172800;
	int rc;
	char key[128];

	memset(&sock, 0, sizeof(sock));
	memset(&tr, 0, sizeof(tr));
	pfx_table_init(&pfxt, NULL);
	spki_table_init(&spkit, NULL);
	rc = rtr_init(&sock, &tr, &pfxt, &spkit, rf, ex, rt, (enum rtr_interval_mode)(c % 4), NULL, NULL, NULL);
	CNT("c17/rtr_init_calls");
	if (ok && rc != RTR_SUCCESS) {
		snprintf(key, sizeof(key), "C17:rtr_init-rejects-valid");
		viol("C17", key, "rtr_init(refresh %u, expire %u, retry %u) returned %d", rf, ex, rt, rc);
	}
	if (!ok && rc == RTR_SUCCESS) {
		snprintf(key, sizeof(key), "C17:rtr_init-accepts-out-of-range:%s", rf < 1 || rf > 86400 ? "refresh" : rt < 1 || rt > 7200 ? "retry" : "expire");
		viol("C17", key, "rtr_init(refresh %u, expire %u, retry %u) succeeded", rf, ex, rt);
	}
	if (ok)
		CNT("c17/rtr_init_accepts");
	else
		CNT("c17/rtr_init_rejects");
	nontrivial(hmix(hmix(rf, rt), ex));
	pfx_table_free(&pfxt);
	spki_table_free(&spkit);
	/* the manager applies the same rule */
	{
		struct rtr_mgr_config *conf = NULL;
		struct rtr_socket s1;
		struct rtr_socket *sl[1] = {&s1};
		struct rtr_mgr_group g;
		static struct tr_socket dummy_tr;

		memset(&s1, 0, sizeof(s1));
		s1.tr_socket = &dummy_tr;
		g.sockets = sl;
		g.sockets_len = 1;
		g.preference = 1;
		g.status = 0;
		rc = rtr_mgr_init(&conf, &g, 1, rf, ex, rt, NULL, NULL, NULL, NULL);
		CNT("c17/rtr_mgr_init_calls");
		if (ok != (rc == RTR_SUCCESS)) {
			viol("C17", ok ? "C17:rtr_mgr_init-rejects-valid" : "C17:rtr_mgr_init-accepts-out-of-range",
			     "rtr_mgr_init(refresh %u, expire %u, retry %u) returned %d", rf, ex, rt, rc);
		}
		if (!ok && conf) {
			viol("C17", "C17:rtr_mgr_init-config-not-null", "rtr_mgr_init failed but *config_out is not NULL");
		}
		if (rc == RTR_SUCCESS && conf) {
			dummy_tr.free_fp = NULL;
			/* rtr_mgr_free calls tr_free on every socket: give it a no-op */
			extern void sim_noop_free(struct tr_socket *t);
			dummy_tr.free_fp = sim_noop_free;
			rtr_mgr_free(conf);
		}
	}
}

void sim_noop_free(struct tr_socket *t);
void sim_noop_free(struct tr_socket *t)
{
	(void)t;
}

#ifdef VERIF_LIBFUZZER
/* ------------------------------------------------------------------ C04: coverage-guided stream fuzzing (libFuzzer)
 * input = one control byte + the byte stream the cache sends.  The control byte picks where the stream arrives (first
 * answer / answer to a Serial Query after a genuine synchronisation / while the client idles), the interval mode, the
 * cache version, whether the connection is closed afterwards and the second read segmentation.  The scenario seed is
 * constant, so session id, serial and universe are the same in every execution and the fuzzer can learn them.
 * Oracles as in the generator-driven mode: sanitizers + assertions, spin monitors, framing rule of the reference
 * validator, outcome independent of read segmentation - a monitor verdict traps (VO.trap). */
static const uint8_t *LF_DATA;
static size_t LF_LEN;
static uint8_t LF_CAP[8192];
static size_t LF_CAPN;
static bool LF_CAPTURE;

static size_t lf_rawgen(struct sim *s, uint8_t *out, size_t cap, uint64_t fseed, int where)
{
	size_t n;

	if (LF_CAPTURE) {
		n = fuzz_rawgen(s, out, cap, fseed, where);
		if (!LF_CAPN && n && n <= sizeof(LF_CAP)) {
			memcpy(LF_CAP, out, n);
			LF_CAPN = n;
		}
		return n;
	}
	n = LF_LEN < cap ? LF_LEN : cap;
	memcpy(out, LF_DATA, n);
	return n;
}

static void lf_scen(struct scen *sc, uint8_t ctl, uint64_t fseed)
{
	struct rng r;

	rng_seed(&r, 0x1f022, 0);
	gen_fuzz(sc, &r, ctl % 4, 0x1f022);
	sc->cfg.rawgen = lf_rawgen;
	sc->cfg.fuzz_seed = fseed;
	sc->cfg.iv_mode = (ctl >> 2) & 3;
	sc->cache_version = (ctl & 16) ? 0 : 1;
	sc->cfg.raw_close_after = (ctl & 32) != 0;
	sc->callbacks = true;
}

int LLVMFuzzerInitialize(int *argc, char ***argv);
int LLVMFuzzerTestOneInput(const uint8_t *data, size_t len);

int LLVMFuzzerInitialize(int *argc, char ***argv)
{
	const char *out = getenv("VERIF_FUZZ_OUT"), *sd = getenv("VERIF_FUZZ_SEEDDIR");
	static struct scen sc;

	(void)argc;
	(void)argv;
	VO.max_samples = 0;
	vo_open(out ? out : "/dev/null");
	VO.max_samples = 0;
	if (sd) {
		/* seed corpus: streams of the structure-aware generator, captured as the simulated cache sends them */
		long n = getenv("VERIF_FUZZ_NSEEDS") ? atol(getenv("VERIF_FUZZ_NSEEDS")) : 256;

		LF_CAPTURE = true;
		VO.muted = true;
		for (long i = 0; i < n; i++) {
			char pth[4200];
			uint8_t ctl = (uint8_t)(i * 37);
			FILE *f;

			LF_CAPN = 0;
			VNOW = 1000000;
			lf_scen(&sc, ctl, mix64(0x5eed, (uint64_t)i));
			sc.cfg.chunk_rx = CH_MAX;
			run_scen(&sc, 0x1f022, NULL);
			if (!LF_CAPN)
				continue;
			snprintf(pth, sizeof(pth), "%s/seed-%04ld", sd, i);
			f = fopen(pth, "wb");
			if (f) {
				fputc(ctl, f);
				fwrite(LF_CAP, 1, LF_CAPN, f);
				fclose(f);
			}
		}
		VO.muted = false;
		LF_CAPTURE = false;
	}
	VO.trap = "C04"; /* monitors of sibling properties stay diagnostic here, as in the generator-driven mode */
	return 0;
}

int LLVMFuzzerTestOneInput(const uint8_t *data, size_t len)
{
	static struct scen sc;
	static const int CHS[] = {CH_ONE, CH_RANDOM, CH_HEADER_SPLIT, CH_RANDOM};
	uint64_t ref = 0, refp[5] = {0};
	unsigned long refn = 0;
	uint8_t ctl;

	if (len < 2 || len > 6000)
		return 0;
	ctl = data[0];
	LF_DATA = data + 1;
	LF_LEN = len - 1;
	for (int i = 0; i < 2; i++) {
		VNOW = 1000000;
		if (getenv("LF_DEBUG"))
			fprintf(stderr, "DBG ---- run %d\n", i);
		lf_scen(&sc, ctl, 0);
		sc.cfg.chunk_rx = i == 0 ? CH_MAX : CHS[ctl >> 6];
		VO.muted = i > 0;
		run_scen(&sc, 0x1f022, NULL);
		VO.muted = false;
		if (i == 0) {
			ref = LAST_OUTCOME;
			refn = LAST_RECORDS;
			memcpy(refp, LAST_PARTS, sizeof(refp));
		} else if (LAST_OUTCOME != ref) {
			viol("C04", "C04:outcome-depends-on-read-segmentation:libfuzzer", "the same byte stream read in other chunks gave a different outcome than with maximal reads (%016llx vs %016llx, %lu vs %lu records; bytes sent %d, state trace %d, table contents %d, final state %llu vs %llu, serial %llu vs %llu)",
			     (unsigned long long)LAST_OUTCOME, (unsigned long long)ref, LAST_RECORDS, refn, refp[0] != LAST_PARTS[0], refp[1] != LAST_PARTS[1], refp[2] != LAST_PARTS[2],
			     (unsigned long long)LAST_PARTS[3], (unsigned long long)refp[3], (unsigned long long)LAST_PARTS[4], (unsigned long long)refp[4]);
		}
	}
	return 0;
}
#define main rtrsim_main_unused
#endif

int main(int argc, char **argv)
{
	if (argc < 6) {
		fprintf(stderr, "usage: %s mode seed from to outfile\n", argv[0]);
		return 2;
	}
	const char *mode = argv[1];
	uint64_t seed = strtoull(argv[2], NULL, 0);
	long from = atol(argv[3]), to = atol(argv[4]);

	VO.max_samples = 2;
	ALLOC_UNDO_ONLY = argkv_l(argc, argv, "undo_only", 0);
	if (argkv_l(argc, argv, "balance", 0)) {
		/* any scenario mode with the counting allocator installed and no failure injected: whatever the conversation
		 * was (defective responses, Error Reports, transport faults, stops), every block the library took from the
		 * configured allocator must be back when the tables have been freed, and freed through that allocator */
		ALLOC_MODE = true;
		SIM_ALLOC_PAUSE = &AM.paused;
		ALLOC_FAIL_AT = 0;
	}
#ifdef SIM_TCP_WRAPS
	USE_TCP = argkv_l(argc, argv, "tcp", 0);
#endif
	vo_open(argv[5]);
	for (long c = from; c < to; c++) {
		struct rng r;
		static struct scen sc;

		vo_case(c);
		rng_seed(&r, seed, (uint64_t)c);
		VNOW = 1000000;
		if (!strcmp(mode, "conv"))
			gen_conv(&sc, &r, c);
		else if (!strcmp(mode, "defect"))
			gen_defect(&sc, &r, c);
		else if (!strcmp(mode, "faults"))
			gen_faults(&sc, &r, c, seed);
		else if (!strcmp(mode, "expiry"))
			gen_expiry(&sc, &r, c);
		else if (!strcmp(mode, "stops"))
			gen_stops(&sc, &r, c);
		else if (!strcmp(mode, "version"))
			gen_version(&sc, &r, c);
		else if (!strcmp(mode, "intervals"))
			gen_intervals(&sc, &r, c);
		else if (!strcmp(mode, "reload"))
			gen_reload(&sc, &r, c);
		else if (!strcmp(mode, "intr"))
			gen_intr(&sc, &r, c);
		else if (!strcmp(mode, "fuzz")) {
			CNT("sim/scenarios");
			run_fuzz_case(&r, c, seed);
			continue;
		} else if (!strcmp(mode, "allocsync")) {
			ALLOC_MODE = true;
			SIM_ALLOC_PAUSE = &AM.paused;
			gen_allocsync(&sc, &r, c, seed);
			CNT("sim/scenarios");
			run_scen(&sc, mix64(seed, (uint64_t)ALLOC_BASE_ID), NULL);
			continue;
		} else if (!strcmp(mode, "ivinit")) {
			intervals_init_case(c);
			continue;
		} else
			return 2;
		CNT("sim/scenarios");
		run_scen(&sc, mix64(seed, (uint64_t)c), NULL);
	}
	vo_close();
	return 0;
}
