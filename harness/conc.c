/* conc engine: concurrency properties.
 *   lin     N reader threads + 1 writer on pfx_table and spki_table; every read is logged with the window
 *           [completed-before, started-after] of writer steps and must equal the model's answer for some
 *           step in the window (linearizability); the tsan build of the same workload yields the race verdict  (C16)
 *   reload  the real FSM thread performs forced full reloads from a scripted cache (new session, new data
 *           set) while reader threads validate routes and look up router keys; every answer must be the one
 *           under the complete old or the complete new data set, never new-then-old                          (C06)
 */
#include "sim_int.h"

#include <sched.h>
#include <dirent.h>
#include <sys/syscall.h>
#include <unistd.h>

VCOMMON_GLOBALS

static struct rtr_socket SRC[4];

/* ================================================================== lin */
#define NU 64
struct urec {
	struct prec p;
	int src;
};
static struct urec UP[NU];
static struct krec UK[NU];
static int UKSRC[NU];
static uint8_t LSKI[4][SKI_SIZE];
static const uint32_t LASN[4] = {1, 2, 64512, 0};

enum { W_PADD, W_PREM, W_PSRC, W_KADD, W_KREM, W_KSRC };
struct wop {
	uint8_t kind;
	uint8_t arg;
};
#define MAXSTEPS 6000
static struct wop WOPS[MAXSTEPS];
static int WN;
static uint64_t PM[MAXSTEPS + 2], KM[MAXSTEPS + 2]; /* model state after step i (step 0 = empty) */
static int STEP_OF_OP_LAST[MAXSTEPS]; /* last step index of writer op i */
static int NSTEPS;

static volatile int W_STARTED, W_COMPLETED, W_DONE;
static volatile unsigned long PROGRESS; /* operations and lookups done, for the deadlock monitor */

enum { Q_VALIDATE, Q_ENUM4, Q_ENUM6, Q_GETALL, Q_SEARCH };
struct rlog {
	uint8_t kind;
	uint8_t a, b; /* query arguments (indices) */
	uint8_t state;
	int lo, hi;
	uint64_t mask; /* reason set / enumeration / key set as universe mask */
	uint8_t bad; /* result not expressible in the universe */
};
#define MAXLOG 60000
struct reader {
	pthread_t th;
	struct rlog *log;
	int n;
	struct rng rng;
	struct pfx_table *pt;
	struct spki_table *kt;
	int id;
	unsigned long failed_lookups, failed_but_ok;
};

/* "hot" cases: all router keys sit under two (AS, SKI) pairs, the writer works almost only on keys and readers mostly
 * look keys up - several writer steps on the very set a lookup returns fall inside one lookup */
static int HOT;

static void lin_universe(struct rng *r)
{
	uint32_t t4 = rnd32(r), t6[4] = {rnd32(r), rnd32(r), rnd32(r), rnd32(r)};

	for (int i = 0; i < 4; i++)
		for (int b = 0; b < SKI_SIZE; b++)
			LSKI[i][b] = (uint8_t)(i * 40 + b);
	for (int i = 0; i < NU; i++) {
		struct prec *p = &UP[i].p;
		bool dup;

		do {
			memset(p, 0, sizeof(*p));
			if (i % 2 == 0) {
				p->fam = 4;
				p->a[0] = t4;
				p->len = (uint8_t)(rndn(r, 6) * 4 + 8);
				if (rndp(r, 1, 3))
					p->a[0] ^= 0x80000000u >> rndn(r, p->len);
				p->a[0] &= p->len ? ~(0xffffffffu >> p->len) | (p->len == 32 ? 0xffffffffu : 0) : 0;
				if (p->len < 32)
					p->a[0] &= ~(0xffffffffu >> p->len);
				p->maxlen = (uint8_t)(p->len + rndn(r, 33 - p->len));
			} else {
				p->fam = 6;
				memcpy(p->a, t6, 16);
				p->len = (uint8_t)(rndn(r, 6) * 8 + 16);
				if (rndp(r, 1, 3))
					p->a[0] ^= 0x80000000u >> rndn(r, 16);
				for (int w = 0; w < 4; w++) {
					int lo = w * 32;

					if (p->len <= lo)
						p->a[w] = 0;
					else if (p->len < lo + 32)
						p->a[w] &= ~(0xffffffffu >> (p->len - lo));
				}
				p->maxlen = (uint8_t)(p->len + rndn(r, 129 - p->len));
			}
			p->asn = LASN[rndn(r, 4)];
			UP[i].src = (int)rndn(r, 3);
			dup = false;
			for (int j = 0; j < i && !dup; j++)
				dup = memcmp(&UP[j].p, p, sizeof(*p)) == 0;
		} while (dup);
	}
	for (int i = 0; i < NU; i++) {
		memset(&UK[i], 0, sizeof(UK[i]));
		UK[i].asn = HOT ? LASN[i % 2] : LASN[i % 3];
		memcpy(UK[i].ski, LSKI[HOT ? 0 : (i / 3) % 4], SKI_SIZE);
		for (int b = 0; b < SPKI_SIZE; b++)
			UK[i].spki[b] = (uint8_t)(i + b);
		UKSRC[i] = (int)rndn(r, 3);
	}
}

static int find_up(const struct pfx_record *rec)
{
	struct prec p;

	prec_from_record(rec, &p);
	for (int i = 0; i < NU; i++)
		if (rec->socket == &SRC[UP[i].src] && memcmp(&UP[i].p, &p, sizeof(p)) == 0)
			return i;
	return -1;
}

static int find_uk(const struct spki_record *rec)
{
	for (int i = 0; i < NU; i++)
		if (rec->socket == &SRC[UKSRC[i]] && rec->asn == UK[i].asn && !memcmp(rec->ski, UK[i].ski, SKI_SIZE) &&
		    !memcmp(rec->spki, UK[i].spki, SPKI_SIZE))
			return i;
	return -1;
}

static bool p_covers(const struct prec *r, const struct prec *q, int qlen)
{
	if (r->fam != q->fam || r->len > qlen)
		return false;
	for (int w = 0; w < 4; w++) {
		int lo = w * 32;
		uint32_t m = r->len <= lo ? 0 : r->len >= lo + 32 ? 0xffffffffu : ~(0xffffffffu >> (r->len - lo));

		if ((q->a[w] & m) != (r->a[w] & m))
			return false;
	}
	return true;
}

/* plan the writer's operations and the model states */
static void lin_plan(struct rng *r, int nops)
{
	uint64_t pm = 0, km = 0;
	int step = 0;

	PM[0] = KM[0] = 0;
	WN = 0;
	for (int i = 0; i < nops && step < MAXSTEPS - 4; i++) {
		uint32_t k = rndn(r, 100);
		struct wop *w = &WOPS[WN];

		w->arg = (uint8_t)rndn(r, NU);
		if (HOT) /* 5 / 5 / 2 prefix operations, 43 / 41 / 4 key operations */
			k = k < 5 ? 0 : k < 10 ? 34 : k < 12 ? 60 : k < 55 ? 64 : k < 96 ? 82 : 96;
		if (k < 34) {
			w->kind = W_PADD;
			pm |= 1ULL << w->arg;
		} else if (k < 60) {
			w->kind = W_PREM;
			pm &= ~(1ULL << w->arg);
		} else if (k < 64) {
			w->kind = W_PSRC;
			w->arg %= 3;
			/* two model steps: the IPv4 tree is purged under one lock hold, the IPv6 tree under the next */
			for (int j = 0; j < NU; j++)
				if (UP[j].src == w->arg && UP[j].p.fam == 4)
					pm &= ~(1ULL << j);
			step++;
			PM[step] = pm;
			KM[step] = km;
			for (int j = 0; j < NU; j++)
				if (UP[j].src == w->arg)
					pm &= ~(1ULL << j);
		} else if (k < 82) {
			w->kind = W_KADD;
			km |= 1ULL << w->arg;
		} else if (k < 96) {
			w->kind = W_KREM;
			km &= ~(1ULL << w->arg);
		} else {
			w->kind = W_KSRC;
			w->arg %= 3;
			for (int j = 0; j < NU; j++)
				if (UKSRC[j] == w->arg)
					km &= ~(1ULL << j);
		}
		step++;
		PM[step] = pm;
		KM[step] = km;
		STEP_OF_OP_LAST[WN] = step;
		WN++;
	}
	NSTEPS = step;
}

struct wctx {
	struct pfx_table *pt;
	struct spki_table *kt;
};

static void *writer_main(void *arg)
{
	struct wctx *c = arg;

	for (int i = 0; i < WN; i++) {
		struct wop *w = &WOPS[i];
		struct pfx_record pr;
		struct spki_record kr;

		__atomic_store_n(&W_STARTED, STEP_OF_OP_LAST[i], __ATOMIC_SEQ_CST);
		switch (w->kind) {
		case W_PADD:
			record_from_prec(&UP[w->arg].p, &pr, &SRC[UP[w->arg].src]);
			pfx_table_add(c->pt, &pr);
			break;
		case W_PREM:
			record_from_prec(&UP[w->arg].p, &pr, &SRC[UP[w->arg].src]);
			pfx_table_remove(c->pt, &pr);
			break;
		case W_PSRC:
			pfx_table_src_remove(c->pt, &SRC[w->arg]);
			break;
		case W_KADD:
		case W_KREM:
			memset(&kr, 0, sizeof(kr));
			kr.asn = UK[w->arg].asn;
			memcpy(kr.ski, UK[w->arg].ski, SKI_SIZE);
			memcpy(kr.spki, UK[w->arg].spki, SPKI_SIZE);
			kr.socket = &SRC[UKSRC[w->arg]];
			if (w->kind == W_KADD)
				spki_table_add_entry(c->kt, &kr);
			else
				spki_table_remove_entry(c->kt, &kr);
			break;
		default:
			spki_table_src_remove(c->kt, &SRC[w->arg]);
			break;
		}
		__atomic_store_n(&W_COMPLETED, STEP_OF_OP_LAST[i], __ATOMIC_SEQ_CST);
		PROGRESS++;
		if ((i & 7) == 0)
			sched_yield();
	}
	__atomic_store_n(&W_DONE, 1, __ATOMIC_SEQ_CST);
	return NULL;
}

struct enumctx {
	uint64_t mask;
	int bad;
};

static void enum_cb(const struct pfx_record *rec, void *d)
{
	struct enumctx *e = d;
	int ix = find_up(rec);

	if (ix < 0 || (e->mask >> ix) & 1)
		e->bad = 1;
	else
		e->mask |= 1ULL << ix;
}

/* Injected delay: the library allocates through the functions installed with lrtr_set_alloc_functions().  On reader
 * threads one allocation in four spins for 2-40 microseconds before it returns - an allocation is what a lookup does
 * between (or inside) its critical sections, so this is where a window between two lock holds would be.  Writers are
 * never delayed. */
static __thread uint32_t ALLOC_DELAY_RNG; /* 0 = this thread is not delayed */
static uint64_t ALLOC_DELAYS;
static uint32_t ALLOC_DELAY_MASK = 3; /* one allocation in four (lin mode); reload mode: one in 256, its readers hold
					 * the lock while they wait and the reloading thread must get its turn */

static void alloc_delay(void)
{
	struct timespec t0, t1;
	uint32_t x = ALLOC_DELAY_RNG;
	long ns;

	if (!x)
		return;
	x ^= x << 13;
	x ^= x >> 17;
	x ^= x << 5;
	ALLOC_DELAY_RNG = x ? x : 1;
	if (x & ALLOC_DELAY_MASK)
		return;
	ns = 2000 + (long)((x >> 8) % 38000);
	clock_gettime(CLOCK_MONOTONIC, &t0);
	do {
		clock_gettime(CLOCK_MONOTONIC, &t1);
	} while ((t1.tv_sec - t0.tv_sec) * 1000000000L + (t1.tv_nsec - t0.tv_nsec) < ns);
	__atomic_fetch_add(&ALLOC_DELAYS, 1, __ATOMIC_RELAXED);
}

/* ... and one in 48 fails: a lookup that cannot allocate must come back with an error and leave the lock as it found it */
static __thread unsigned long ALLOC_FAILS;
static bool ALLOC_FAIL_ENABLED;
static uint64_t ALLOC_FAILS_TOTAL;

static bool alloc_fails_now(void)
{
	uint32_t x = ALLOC_DELAY_RNG;

	if (!x || !ALLOC_FAIL_ENABLED)
		return false;
	x ^= x << 13;
	x ^= x >> 17;
	x ^= x << 5;
	ALLOC_DELAY_RNG = x ? x : 1;
	if (x % 48)
		return false;
	ALLOC_FAILS++;
	__atomic_fetch_add(&ALLOC_FAILS_TOTAL, 1, __ATOMIC_RELAXED);
	return true;
}

static void *d_malloc(size_t n)
{
	void *p;

	if (alloc_fails_now())
		return NULL;
	p = malloc(n);
	alloc_delay();
	return p;
}

static void *d_realloc(void *o, size_t n)
{
	void *p;

	if (n && alloc_fails_now())
		return NULL;
	p = realloc(o, n);
	alloc_delay();
	return p;
}

static void d_free(void *p)
{
	free(p);
}

static void *reader_main(void *arg)
{
	struct reader *rd = arg;
	struct pfx_record *reason = NULL;
	unsigned int rlen = 0;

	ALLOC_DELAY_RNG = (uint32_t)rnd32(&rd->rng) | 1;
	while (!__atomic_load_n(&W_DONE, __ATOMIC_SEQ_CST) && rd->n < MAXLOG) {
		struct rlog *l = &rd->log[rd->n];
		uint32_t k = rndn(&rd->rng, 100);

		if (HOT && k >= 20)
			k = 65 + k % 35;
		unsigned long fails0 = ALLOC_FAILS;

		memset(l, 0, sizeof(*l));
		l->lo = __atomic_load_n(&W_COMPLETED, __ATOMIC_SEQ_CST);
		if (k < 50) {
			struct lrtr_ip_addr ip;
			enum pfxv_state st = 0;
			const struct prec *q = &UP[l->a = (uint8_t)rndn(&rd->rng, NU)].p;
			int full = q->fam == 4 ? 32 : 128;
			int qlen = q->len + (int)rndn(&rd->rng, 3);

			if (qlen > full)
				qlen = full;
			l->kind = Q_VALIDATE;
			l->b = (uint8_t)qlen;
			memset(&ip, 0, sizeof(ip));
			if (q->fam == 4) {
				ip.ver = LRTR_IPV4;
				ip.u.addr4.addr = q->a[0];
			} else {
				ip.ver = LRTR_IPV6;
				memcpy(ip.u.addr6.addr, q->a, 16);
			}
			if (pfx_table_validate_r(rd->pt, &reason, &rlen, q->asn, &ip, (uint8_t)qlen, &st) != PFX_SUCCESS)
				l->bad = 1;
			l->state = (uint8_t)st;
			for (unsigned int i = 0; i < rlen; i++) {
				int ix = find_up(&reason[i]);

				if (ix < 0 || (l->mask >> ix) & 1)
					l->bad = 1;
				else
					l->mask |= 1ULL << ix;
			}
		} else if (k < 65) {
			struct enumctx e = {0, 0};

			l->kind = k < 58 ? Q_ENUM4 : Q_ENUM6;
			if (l->kind == Q_ENUM4)
				pfx_table_for_each_ipv4_record(rd->pt, enum_cb, &e);
			else
				pfx_table_for_each_ipv6_record(rd->pt, enum_cb, &e);
			l->mask = e.mask;
			l->bad = (uint8_t)e.bad;
		} else {
			struct spki_record *res = NULL;
			unsigned int n = 0;
			int rc;

			l->a = (uint8_t)rndn(&rd->rng, HOT ? 2 : 3);
			l->b = (uint8_t)(HOT && rndp(&rd->rng, 7, 8) ? 0 : rndn(&rd->rng, 4));
			if (k < 85) {
				l->kind = Q_GETALL;
				rc = spki_table_get_all(rd->kt, LASN[l->a], LSKI[l->b], &res, &n);
			} else {
				l->kind = Q_SEARCH;
				rc = spki_table_search_by_ski(rd->kt, LSKI[l->b], &res, &n);
			}
			if (rc != SPKI_SUCCESS) {
				/* on an error the output arguments mean nothing (the library leaves a stale pointer behind) */
				l->bad = 1;
				res = NULL;
				n = 0;
			}
			for (unsigned int i = 0; i < n; i++) {
				int ix = find_uk(&res[i]);

				if (ix < 0 || (l->mask >> ix) & 1)
					l->bad = 1;
				else
					l->mask |= 1ULL << ix;
			}
			lrtr_free(res);
		}
		l->hi = __atomic_load_n(&W_STARTED, __ATOMIC_SEQ_CST);
		if (l->hi < l->lo)
			l->hi = l->lo;
		PROGRESS++;
		if (ALLOC_FAILS != fails0) {
			/* an allocation of this lookup was made to fail: it must have reported an error (for validation the reason
			 * array is then gone); it gives no answer to check, the next lookups do */
			rd->failed_lookups++;
			if (l->kind == Q_VALIDATE && !l->bad)
				rd->failed_but_ok++;
			continue;
		}
		rd->n++;
		if ((rd->n & 31) == 0)
			sched_yield(); /* glibc rwlocks prefer readers: let the writer in */
	}
	lrtr_free(reason);
	return NULL;
}

static const char *QN[] = {"validate", "enum-v4", "enum-v6", "get_all", "search_by_ski"};

static bool answer_ok(const struct rlog *l, uint64_t pm, uint64_t km)
{
	switch (l->kind) {
	case Q_VALIDATE: {
		const struct prec *q = &UP[l->a].p;
		uint64_t cov = 0;
		bool valid = false;

		for (int j = 0; j < NU; j++) {
			if (((pm >> j) & 1) && p_covers(&UP[j].p, q, l->b)) {
				cov |= 1ULL << j;
				if (UP[j].p.asn == q->asn && q->asn != 0 && l->b <= UP[j].p.maxlen)
					valid = true;
			}
		}
		if (!cov)
			return l->state == BGP_PFXV_STATE_NOT_FOUND && l->mask == 0;
		if (!valid)
			return l->state == BGP_PFXV_STATE_INVALID && l->mask == cov;
		if (l->state != BGP_PFXV_STATE_VALID || (l->mask & ~cov))
			return false;
		for (int j = 0; j < NU; j++)
			if (((l->mask >> j) & 1) && UP[j].p.asn == q->asn && l->b <= UP[j].p.maxlen)
				return true;
		return false;
	}
	case Q_ENUM4:
	case Q_ENUM6: {
		uint64_t want = 0;

		for (int j = 0; j < NU; j++)
			if (((pm >> j) & 1) && UP[j].p.fam == (l->kind == Q_ENUM4 ? 4 : 6))
				want |= 1ULL << j;
		return l->mask == want;
	}
	case Q_GETALL: {
		uint64_t want = 0;

		for (int j = 0; j < NU; j++)
			if (((km >> j) & 1) && UK[j].asn == LASN[l->a] && !memcmp(UK[j].ski, LSKI[l->b], SKI_SIZE))
				want |= 1ULL << j;
		return l->mask == want;
	}
	default: {
		uint64_t want = 0;

		for (int j = 0; j < NU; j++)
			if (((km >> j) & 1) && !memcmp(UK[j].ski, LSKI[l->b], SKI_SIZE))
				want |= 1ULL << j;
		return l->mask == want;
	}
	}
}

/* Deadlock monitor for the multi-threaded runs: a watchdog thread looks once
 * per second: when the progress counter stands still and every other thread of the process is asleep (kernel
 * state S, never R or D) at 25 consecutive looks, nobody is left who could wake anybody - a lock has been left in a state
 * no thread can get out of - and that is reported for the property the run belongs to. */

static bool all_other_threads_asleep(void)
{
	DIR *d = opendir("/proc/self/task");
	struct dirent *e;
	pid_t me = (pid_t)syscall(SYS_gettid);
	bool asleep = true;

	if (!d)
		return false;
	while ((e = readdir(d)) != NULL && asleep) {
		char pth[300], buf[512], *p;
		FILE *f;

		if (e->d_name[0] == '.' || atoi(e->d_name) == (int)me)
			continue;
		snprintf(pth, sizeof(pth), "/proc/self/task/%s/stat", e->d_name);
		f = fopen(pth, "r");
		if (!f)
			continue;
		if (fgets(buf, sizeof(buf), f)) {
			p = strrchr(buf, ')');
			if (!p || p[1] != ' ' || p[2] != 'S')
				asleep = false;
		}
		fclose(f);
	}
	closedir(d);
	return asleep;
}

static const char *WATCH_PROP = "C16", *WATCH_WHAT = "lin";

/* runs for the life of the process; covers the driver thread too (it takes table locks when it frees the tables) */
static void *watchdog_main(void *arg)
{
	unsigned long last = PROGRESS + 1;
	int still = 0;

	(void)arg;
	for (;;) {
		struct timespec ts = {1, 0};

		nanosleep(&ts, NULL);
		if (PROGRESS != last || !all_other_threads_asleep()) {
			last = PROGRESS;
			still = 0;
			continue;
		}
		if (++still >= 25) {
			char key[96];

			snprintf(key, sizeof(key), "%s:blocked:%s", WATCH_PROP, WATCH_WHAT);
			viol(WATCH_PROP, key, "every thread of the run sleeps and none has made progress for 25 looks one second apart: a table lock is in a state nobody can leave (%lu operations done)",
			     PROGRESS);
			vo_abort_case();
		}
	}
	return NULL;
}

static void run_lin_case(struct rng *r, long c, int nops, int light)
{
	struct pfx_table pt;
	struct spki_table kt;
	struct wctx wc = {&pt, &kt};
	pthread_t wt;
	int nr = c % 3 == 2 ? 2 + (int)rndn(r, 4) : 4 + (int)rndn(r, 9);
	struct reader *rd = calloc((size_t)nr, sizeof(*rd));
	uint64_t hh = 0;
	unsigned long overlapping = 0, total = 0;
	int maxwin = 0;

	HOT = c % 3 == 2;
	ALLOC_FAIL_ENABLED = true;
	ALLOC_DELAY_MASK = 3;
	lin_universe(r);
	lin_plan(r, nops);
	pfx_table_init(&pt, NULL);
	spki_table_init(&kt, NULL);
	{
		/* 190-250 router keys of a fourth source that nobody touches or asks for: lookups that walk the whole key list
		 * have a long way to go, and the keys the writer works on lie across the 256th entry */
		int nfill = 190 + (int)rndn(r, 61);

		for (int i = 0; i < nfill; i++) {
			struct spki_record kr;

			memset(&kr, 0, sizeof(kr));
			kr.asn = 70000 + (uint32_t)i;
			memset(kr.ski, 0xF1, SKI_SIZE);
			kr.ski[0] = (uint8_t)i;
			memset(kr.spki, 0x3C, SPKI_SIZE);
			kr.socket = &SRC[3];
			spki_table_add_entry(&kt, &kr);
		}
		cnt_max("max:c16/filler_keys", (uint64_t)nfill);
	}
	W_STARTED = W_COMPLETED = W_DONE = 0;
	for (int i = 0; i < nr; i++) {
		rd[i].log = malloc(sizeof(struct rlog) * MAXLOG);
		rd[i].pt = &pt;
		rd[i].kt = &kt;
		rd[i].id = i;
		rd[i].rng.s = rnd64(r);
		pthread_create(&rd[i].th, NULL, reader_main, &rd[i]);
	}
	pthread_create(&wt, NULL, writer_main, &wc);
	pthread_join(wt, NULL);
	for (int i = 0; i < nr; i++)
		pthread_join(rd[i].th, NULL);
	/* offline check of the recorded history */
	for (int i = 0; i < nr; i++) {
		for (int j = 0; j < rd[i].n; j++) {
			const struct rlog *l = &rd[i].log[j];
			bool ok = false;

			total++;
			if (l->hi > l->lo) {
				overlapping++;
				cntf(1, "c16/overlapping_reads/%s", QN[l->kind]);
				if (l->hi - l->lo > maxwin)
					maxwin = l->hi - l->lo;
			}
			if (!l->bad)
				for (int v = l->lo; v <= l->hi && !ok; v++)
					ok = answer_ok(l, PM[v], KM[v]);
			if (!ok) {
				char key[128];

				snprintf(key, sizeof(key), "C16:not-linearizable:%s%s", QN[l->kind], l->bad ? ":foreign-or-duplicate-record" : "");
				viol("C16", key, "reader %d: %s(%u,%u) returned state %u set %016llx; no writer step in [%d,%d] explains it (model at lo: pfx %016llx keys %016llx)",
				     i, QN[l->kind], l->a, l->b, l->state, (unsigned long long)l->mask, l->lo, l->hi, (unsigned long long)PM[l->lo],
				     (unsigned long long)KM[l->lo]);
				break;
			}
		}
		hh = hmix(hh, (uint64_t)rd[i].n);
	}
	for (int i = 0; i < nr; i++) {
		cnt_add("c16/lookups_with_injected_allocation_failure", rd[i].failed_lookups);
		cnt_add("c16/validations_succeeding_despite_injected_failure", rd[i].failed_but_ok);
	}
	cnt_add("c16/reads_checked", total);
	cnt_add("c16/reads_overlapping_a_write", overlapping);
	cnt_add("c16/writer_ops", (uint64_t)WN);
	cnt_max("max:c16/max_window", (uint64_t)maxwin);
	if (HOT) {
		CNT("c16/hot_key_cases");
		cnt_max("max:c16/max_window_hot", (uint64_t)maxwin);
	}
	cnt_max("max:c16/readers", (uint64_t)nr);
	if (overlapping)
		nontrivial(hmix(hmix((uint64_t)c, overlapping), hh));
	if (want_sample())
		sample("{\"readers\":%d,\"writer_ops\":%d,\"reads\":%lu,\"reads_overlapping_a_write\":%lu,\"max_window\":%d}", nr, WN, total, overlapping, maxwin);
	for (int i = 0; i < nr; i++)
		free(rd[i].log);
	free(rd);
	pfx_table_free(&pt);
	spki_table_free(&kt);
}

/* ================================================================== reload (C06) */
#define NQ 192
#define MAXEPOCH 48
static struct universe RU;
static bset DSP[MAXEPOCH + 1], DSK[MAXEPOCH + 1];
static uint8_t ANS_P[MAXEPOCH + 1][NQ]; /* expected validation state per (data set, query) */
static uint64_t ANS_K[MAXEPOCH + 1][NQ]; /* digest of expected key set */
static uint64_t ANS_S[MAXEPOCH + 1][N_SKI]; /* digest of the expected answer of search_by_ski */
static struct {
	int rec;
	int qlen;
	uint32_t asn;
} QP[NQ];
static struct {
	uint32_t asn;
	int ski;
} QK[NQ];
static volatile int EPOCH; /* index of the data set that is loaded or being loaded */
static volatile int RELOADING, STOP_READERS;
static bset OTHER_P, OTHER_K;

struct robs {
	unsigned long n, inflight, stable, flips, saw_new, discarded, with_reasons;
};

struct rreader {
	pthread_t th;
	struct rng rng;
	struct pfx_table *pt;
	struct spki_table *kt;
	struct robs o;
	int id;
};

static uint64_t keyset_digest(const bset *k, const bset *o, uint32_t asn, const uint8_t *ski)
{
	uint64_t h = 0x9999;

	/* order-independent digest over (key index, which source) */
	for (int i = 0; i < RU.nk; i++) {
		if (RU.k[i].asn != asn || memcmp(RU.k[i].ski, ski, SKI_SIZE))
			continue;
		if (bs_has(k, i))
			h += hmix(0x51, (uint64_t)i);
		if (bs_has(o, i))
			h += hmix(0x52, (uint64_t)i);
	}
	return h;
}

static uint64_t skiset_digest(const bset *k, const bset *o, const uint8_t *ski)
{
	uint64_t h = 0x7777;

	for (int i = 0; i < RU.nk; i++) {
		if (memcmp(RU.k[i].ski, ski, SKI_SIZE))
			continue;
		if (bs_has(k, i))
			h += hmix(0x51, (uint64_t)i);
		if (bs_has(o, i))
			h += hmix(0x52, (uint64_t)i);
	}
	return h;
}

static uint8_t model_validate(const bset *p, const bset *o, const struct prec *q, int qlen, uint32_t asn)
{
	bool cov = false;

	for (int i = 0; i < RU.np; i++) {
		if (!bs_has(p, i) && !bs_has(o, i))
			continue;
		if (!p_covers(&RU.p[i], q, qlen))
			continue;
		cov = true;
		if (RU.p[i].asn == asn && asn != 0 && qlen <= RU.p[i].maxlen)
			return BGP_PFXV_STATE_VALID;
	}
	return cov ? BGP_PFXV_STATE_INVALID : BGP_PFXV_STATE_NOT_FOUND;
}

static void *rreader_main(void *arg)
{
	struct rreader *rd = arg;
	int last_new_epoch_p = -1, last_new_epoch_k = -1; /* epoch in which a new-only answer was seen */
	struct pfx_record *reason = NULL;
	unsigned int reason_n = 0;

	unsigned long spins = 0;

	ALLOC_DELAY_RNG = (uint32_t)rnd32(&rd->rng) | 1; /* delays only: allocations are made to fail in the lin mode alone */

	while (!__atomic_load_n(&STOP_READERS, __ATOMIC_SEQ_CST)) {
		int q = (int)rndn(&rd->rng, NQ);

		/* glibc rwlocks prefer readers: without gaps a crowd of spinning readers starves the table swap */
		if ((++spins & 15) == 0) {
			PROGRESS++;
			sched_yield();
		}
		if ((spins & 1023) == 0) {
			struct timespec ts = {0, 20000};

			nanosleep(&ts, NULL);
		}
		int e1 = __atomic_load_n(&EPOCH, __ATOMIC_SEQ_CST), e2;
		int infl = __atomic_load_n(&RELOADING, __ATOMIC_SEQ_CST);
		char key[128];

		if (rndp(&rd->rng, 1, 8)) {
			/* lookup by SKI alone */
			struct spki_record *res = NULL;
			unsigned int n = 0;
			uint64_t h = 0x7777;
			int sk = (int)rndn(&rd->rng, N_SKI);

			spki_table_search_by_ski(rd->kt, RU.skis[sk], &res, &n);
			for (unsigned int i = 0; i < n; i++) {
				struct krec k;

				memset(&k, 0, sizeof(k));
				k.asn = res[i].asn;
				memcpy(k.ski, res[i].ski, SKI_SIZE);
				memcpy(k.spki, res[i].spki, SPKI_SIZE);
				h += hmix(res[i].socket == &SRC[0] ? 0x52 : 0x51, (uint64_t)universe_find_k(&RU, &k));
			}
			lrtr_free(res);
			e2 = __atomic_load_n(&EPOCH, __ATOMIC_SEQ_CST);
			if (e1 != e2 || e1 < 1) {
				rd->o.discarded++;
				continue;
			}
			rd->o.n++;
			rd->o.inflight += infl ? 1 : 0;
			if (h != ANS_S[e1 - 1][sk] && h != ANS_S[e1][sk]) {
				viol("C06", "C06:answer-from-neither-set:search_by_ski", "reader %d epoch %d: search_by_ski returned %u keys, neither the old nor the new set", rd->id, e1, n);
				return NULL;
			}
			if (ANS_S[e1 - 1][sk] != ANS_S[e1][sk]) {
				rd->o.flips++;
				if (h == ANS_S[e1][sk]) {
					last_new_epoch_k = e1;
					rd->o.saw_new++;
				} else if (last_new_epoch_k == e1) {
					viol("C06", "C06:new-then-old:search_by_ski", "reader %d epoch %d: saw the new key set and afterwards the old one", rd->id, e1);
					return NULL;
				}
			} else {
				rd->o.stable++;
			}
			continue;
		}
		if (rndp(&rd->rng, 2, 3)) {
			struct lrtr_ip_addr ip;
			enum pfxv_state st = 99;
			const struct prec *pq = &RU.p[QP[q].rec];

			memset(&ip, 0, sizeof(ip));
			if (pq->fam == 4) {
				ip.ver = LRTR_IPV4;
				ip.u.addr4.addr = pq->a[0];
			} else {
				ip.ver = LRTR_IPV6;
				memcpy(ip.u.addr6.addr, pq->a, 16);
			}
			if (spins & 7) {
				pfx_table_validate(rd->pt, QP[q].asn, &ip, (uint8_t)QP[q].qlen, &st);
			} else {
				/* with the deciding records, into the reader's own reused array: the lookup allocates (and is
				 * delayed there) while a reload may be waiting to swap the tables */
				pfx_table_validate_r(rd->pt, &reason, &reason_n, QP[q].asn, &ip, (uint8_t)QP[q].qlen, &st);
				rd->o.with_reasons++;
			}
			e2 = __atomic_load_n(&EPOCH, __ATOMIC_SEQ_CST);
			if (e1 != e2 || e1 < 1) {
				rd->o.discarded++;
				continue;
			}
			uint8_t a_old = ANS_P[e1 - 1][q], a_new = ANS_P[e1][q];

			rd->o.n++;
			rd->o.inflight += infl ? 1 : 0;
			if (a_old == a_new) {
				rd->o.stable++;
				if (st != a_old) {
					snprintf(key, sizeof(key), "C06:stable-answer-deviates:validate:%s", infl ? "during-reload" : "between-reloads");
					viol("C06", key, "reader %d epoch %d: validation answer %d, but the answer is %d under both the old and the new data set (reload in flight: %d)",
					     rd->id, e1, st, a_old, infl);
					return NULL;
				}
			} else {
				rd->o.flips++;
				if (st != a_old && st != a_new) {
					viol("C06", "C06:answer-from-neither-set:validate", "reader %d epoch %d: answer %d is neither the old (%d) nor the new (%d) one", rd->id, e1, st,
					     a_old, a_new);
					return NULL;
				}
				if (st == a_new) {
					last_new_epoch_p = e1;
					rd->o.saw_new++;
				} else if (last_new_epoch_p == e1) {
					viol("C06", "C06:new-then-old:validate", "reader %d epoch %d: saw the new data set and afterwards the old one", rd->id, e1);
					return NULL;
				}
			}
		} else {
			struct spki_record *res = NULL;
			unsigned int n = 0;
			uint64_t h = 0x9999;

			spki_table_get_all(rd->kt, QK[q].asn, RU.skis[QK[q].ski], &res, &n);
			for (unsigned int i = 0; i < n; i++) {
				struct krec k;
				int ix;

				memset(&k, 0, sizeof(k));
				k.asn = res[i].asn;
				memcpy(k.ski, res[i].ski, SKI_SIZE);
				memcpy(k.spki, res[i].spki, SPKI_SIZE);
				ix = universe_find_k(&RU, &k);
				h += hmix(res[i].socket == &SRC[0] ? 0x52 : 0x51, (uint64_t)ix);
			}
			lrtr_free(res);
			e2 = __atomic_load_n(&EPOCH, __ATOMIC_SEQ_CST);
			if (e1 != e2 || e1 < 1) {
				rd->o.discarded++;
				continue;
			}
			uint64_t a_old = ANS_K[e1 - 1][q], a_new = ANS_K[e1][q];

			rd->o.n++;
			rd->o.inflight += infl ? 1 : 0;
			if (a_old == a_new) {
				rd->o.stable++;
				if (h != a_old) {
					snprintf(key, sizeof(key), "C06:stable-answer-deviates:get_all:%s", infl ? "during-reload" : "between-reloads");
					viol("C06", key, "reader %d epoch %d: router-key lookup returned %u keys that match neither data set although both agree (reload in flight: %d)",
					     rd->id, e1, n, infl);
					return NULL;
				}
			} else {
				rd->o.flips++;
				if (h != a_old && h != a_new) {
					viol("C06", "C06:answer-from-neither-set:get_all", "reader %d epoch %d: %u keys returned, neither the old nor the new set", rd->id, e1, n);
					return NULL;
				}
				if (h == a_new) {
					last_new_epoch_k = e1;
					rd->o.saw_new++;
				} else if (last_new_epoch_k == e1) {
					viol("C06", "C06:new-then-old:get_all", "reader %d epoch %d: saw the new key set and afterwards the old one", rd->id, e1);
					return NULL;
				}
			}
		}
	}
	return NULL;
}

/* hooks called from the sim (FSM thread) */
static int PRESET_NEXT;
void conc_on_reset_query_answered(struct sim *s);
void conc_on_reset_query_answered(struct sim *s)
{
	/* the complete data set DS[e] is about to go over the wire (again, if an earlier attempt was cut short) */
	int e = s->preset_next > 0 ? s->preset_next - 1 : 0;

	__atomic_store_n(&RELOADING, 1, __ATOMIC_SEQ_CST);
	__atomic_store_n(&EPOCH, e, __ATOMIC_SEQ_CST);
}

/* Records of the other source that arrive late: after the reloading cache's first synchronisation, so that in the
 * tables' internal order they stand behind records of the reloading cache.  They lie outside everything the readers
 * ask for; the driver checks at the end that every reload carried them over. */
#define NLATE 8
static bool LATE_ADDED;

static void late_key(int i, struct spki_record *kr)
{
	memset(kr, 0, sizeof(*kr));
	kr->asn = 0xFFFFFF00u + (uint32_t)i;
	memset(kr->ski, 0x77, SKI_SIZE);
	memset(kr->spki, 0x50 + i, SPKI_SIZE);
	kr->socket = &SRC[0];
}

static void late_prefix(int i, struct pfx_record *pr)
{
	memset(pr, 0, sizeof(*pr));
	pr->asn = 4242424242u;
	pr->prefix.ver = LRTR_IPV4;
	pr->prefix.u.addr4.addr = 0xCB007100u + (uint32_t)i; /* 203.0.113.i */
	pr->min_len = pr->max_len = 32;
	pr->socket = &SRC[0];
}

static void conc_state_cb(const struct rtr_socket *sock, const enum rtr_socket_state state, void *cfgp, void *grpp)
{
	sim_state_cb(sock, state, cfgp, grpp);
	if (state == RTR_ESTABLISHED) {
		if (!LATE_ADDED) {
			LATE_ADDED = true;
			for (int i = 0; i < NLATE; i++) {
				struct spki_record kr;
				struct pfx_record pr;

				late_key(i, &kr);
				late_prefix(i, &pr);
				spki_table_add_entry(sock->spki_table, &kr);
				pfx_table_add(sock->pfx_table, &pr);
			}
		}
		__atomic_store_n(&RELOADING, 0, __ATOMIC_SEQ_CST);
	}
}

static uint64_t UPDATE_CALLBACKS;

static void count_pfx_cb(struct pfx_table *t, const struct pfx_record rec, const bool added)
{
	(void)t;
	(void)rec;
	(void)added;
	__atomic_fetch_add(&UPDATE_CALLBACKS, 1, __ATOMIC_RELAXED);
}

static void count_spki_cb(struct spki_table *t, const struct spki_record rec, const bool added)
{
	(void)t;
	(void)rec;
	(void)added;
	__atomic_fetch_add(&UPDATE_CALLBACKS, 1, __ATOMIC_RELAXED);
}

static void run_reload_case(struct rng *r, long c, int nepoch, int nrec, int nreaders)
{
	static struct sim S;
	struct sim *s = &S;
	struct simcfg cfg;
	struct pfx_table pt;
	struct spki_table kt;
	struct rtr_socket sock;
	struct rreader *rd;
	struct robs tot = {0};

	if (nepoch > MAXEPOCH)
		nepoch = MAXEPOCH;
	VNOW = 1000000;
	universe_build(&RU, r, nrec, BASE_K);
	/* data sets: a common core, the rest flips between epochs */
	bset core_p, core_k;

	bs_zero(&core_p);
	bs_zero(&core_k);
	bs_zero(&OTHER_P);
	bs_zero(&OTHER_K);
	for (int i = 0; i < RU.np; i++) {
		if (rndp(r, 1, 3))
			bs_set(&core_p, i);
		else if (rndp(r, 1, 10))
			bs_set(&OTHER_P, i);
	}
	for (int i = 0; i < RU.nk; i++) {
		if (rndp(r, 1, 3))
			bs_set(&core_k, i);
		else if (rndp(r, 1, 8))
			bs_set(&OTHER_K, i);
	}
	for (int e = 0; e <= nepoch; e++) {
		DSP[e] = core_p;
		DSK[e] = core_k;
		for (int i = 0; i < RU.np; i++)
			if (!bs_has(&core_p, i) && rndp(r, 1, 2))
				bs_set(&DSP[e], i);
		for (int i = 0; i < RU.nk; i++)
			if (!bs_has(&core_k, i) && rndp(r, 1, 2))
				bs_set(&DSK[e], i);
	}
	for (int q = 0; q < NQ; q++) {
		QP[q].rec = (int)rndn(r, (uint32_t)RU.np);
		QP[q].qlen = RU.p[QP[q].rec].len + (int)rndn(r, 2);
		if (QP[q].qlen > (RU.p[QP[q].rec].fam == 4 ? 32 : 128))
			QP[q].qlen = RU.p[QP[q].rec].len;
		QP[q].asn = rndp(r, 3, 4) ? RU.p[QP[q].rec].asn : 77;
		int ki = (int)rndn(r, (uint32_t)RU.nk);

		QK[q].asn = RU.k[ki].asn;
		QK[q].ski = 0;
		for (int sidx = 0; sidx < N_SKI; sidx++)
			if (!memcmp(RU.skis[sidx], RU.k[ki].ski, SKI_SIZE))
				QK[q].ski = sidx;
		for (int e = 0; e <= nepoch; e++) {
			ANS_P[e][q] = model_validate(&DSP[e], &OTHER_P, &RU.p[QP[q].rec], QP[q].qlen, QP[q].asn);
			ANS_K[e][q] = keyset_digest(&DSK[e], &OTHER_K, QK[q].asn, RU.skis[QK[q].ski]);
		}
	}
	for (int e = 0; e <= nepoch; e++)
		for (int sk = 0; sk < N_SKI; sk++)
			ANS_S[e][sk] = skiset_digest(&DSK[e], &OTHER_K, RU.skis[sk]);
	memset(&cfg, 0, sizeof(cfg));
	cfg.refresh = 10;
	cfg.retry = 1;
	cfg.expire = 7200;
	cfg.iv_mode = RTR_INTERVAL_MODE_IGNORE_ANY;
	cfg.chunk_rx = CH_MAX;
	cfg.chunk_tx = CH_MAX;
	cfg.max_queries = 0;
	cfg.horizon = (time_t)nepoch * 400 + 3000; /* backstop: a client that never completes its reloads must not hang the run */
	sim_init(s, &RU, &cfg, rnd64(r));
	s->cache.session = (uint16_t)rnd32(r);
	s->cache.serial = rnd32(r);
	s->cache.eod_refresh = 10;
	s->cache.eod_retry = 1;
	s->cache.eod_expire = 7200;
	sim_cache_push_dataset(s, &DSP[0], &DSK[0]);
	/* every other case the application has update callbacks installed, as rtr_mgr users normally do: the reload then
	 * also runs its change notification over the old and the new table */
	pfx_table_init(&pt, (c & 1) ? count_pfx_cb : NULL);
	spki_table_init(&kt, (c & 1) ? count_spki_cb : NULL);
	if (c & 1)
		CNT("c06/cases_with_update_callbacks");
	memset(&sock, 0, sizeof(sock));
	sim_attach(s, &sock, &pt, &kt);
	/* static other source */
	for (int i = 0; i < RU.np; i++)
		if (bs_has(&OTHER_P, i)) {
			struct pfx_record pr;

			record_from_prec(&RU.p[i], &pr, &SRC[0]);
			pfx_table_add(&pt, &pr);
		}
	for (int i = 0; i < RU.nk; i++)
		if (bs_has(&OTHER_K, i)) {
			struct spki_record kr;

			memset(&kr, 0, sizeof(kr));
			kr.asn = RU.k[i].asn;
			memcpy(kr.ski, RU.k[i].ski, SKI_SIZE);
			memcpy(kr.spki, RU.k[i].spki, SPKI_SIZE);
			kr.socket = &SRC[0];
			spki_table_add_entry(&kt, &kr);
		}
	rtr_init(&sock, &s->tr, &pt, &kt, cfg.refresh, cfg.expire, cfg.retry, cfg.iv_mode, conc_state_cb, s, NULL);
	EPOCH = -1; /* becomes 0 when the first Reset Query is answered */
	LATE_ADDED = false;
	ALLOC_FAIL_ENABLED = false;
	ALLOC_DELAY_MASK = 255;
	RELOADING = 0;
	STOP_READERS = 0;
	PRESET_NEXT = 1;
	s->presets_p = DSP;
	s->presets_k = DSK;
	s->npresets = nepoch + 1;
	s->on_reset_answer = conc_on_reset_query_answered;
	/* every poll finds a restarted cache holding the next data set: Cache Reset, then a full reload */
	s->cfg.max_queries = 1 + 2L * nepoch;
	s->restart_every_poll = true;
	/* some reloads are cut short after a few PDUs (the cache falls silent): the old set must stay in place,
	 * and the retry must be as atomic as the first attempt */
	{
		int q = 2, nfail = 0, nrej = 0;

		for (int e = 1; e <= nepoch && q < MAX_XPLAN - 2; e++) {
			if (rndp(r, 1, 3)) {
				if (rndp(r, 1, 2)) {
					s->cfg.xplan[q].defect = D_TRUNCATE_SILENT;
					s->cfg.xplan[q].pos = -3;
				} else {
					/* ... or are complete but unacceptable (a record announced twice): the client finds out
					 * when it applies the End of Data and has to take back what it had applied so far */
					s->cfg.xplan[q].defect = D_DUP_ANNOUNCE;
					s->cfg.xplan[q].pos = -1;
					nrej++;
				}
				s->cfg.xplan[q].param = 0;
				q += 1; /* the retry is one more Reset Query */
				nfail++;
			}
			for (int k = 0; k <= q; k++)
				if (s->cfg.xplan[k].defect == D_NONE)
					s->cfg.xplan[k].pos = -1;
			q += 2;
		}
		s->cfg.nxplan = q < MAX_XPLAN ? q : MAX_XPLAN;
		s->cfg.max_queries += nfail;
		cnt_add("c06/reloads_cut_short_then_retried", (uint64_t)(nfail - nrej));
		cnt_add("c06/reloads_rejected_at_end_of_data_then_retried", (uint64_t)nrej);
	}
	rd = calloc((size_t)nreaders, sizeof(*rd));
	for (int i = 0; i < nreaders; i++) {
		rd[i].pt = &pt;
		rd[i].kt = &kt;
		rd[i].id = i;
		rd[i].rng.s = rnd64(r);
		pthread_create(&rd[i].th, NULL, rreader_main, &rd[i]);
	}
	sim_begin_phase(s);
	rtr_start(&sock);
	sim_wait_parked(s);
	__atomic_store_n(&STOP_READERS, 1, __ATOMIC_SEQ_CST);
	for (int i = 0; i < nreaders; i++) {
		pthread_join(rd[i].th, NULL);
		tot.n += rd[i].o.n;
		tot.inflight += rd[i].o.inflight;
		tot.stable += rd[i].o.stable;
		tot.flips += rd[i].o.flips;
		tot.saw_new += rd[i].o.saw_new;
		tot.discarded += rd[i].o.discarded;
		tot.with_reasons += rd[i].o.with_reasons;
	}
	cnt_add("c06/observations", tot.n);
	cnt_add("c06/observations_while_reload_in_flight", tot.inflight);
	cnt_add("c06/stable_query_observations", tot.stable);
	cnt_add("c06/flip_query_observations", tot.flips);
	cnt_add("c06/new_set_observations", tot.saw_new);
	cnt_add("c06/discarded_epoch_changed_during_call", tot.discarded);
	cnt_add("c06/validations_with_reason_array", tot.with_reasons);
	cnt_add("c06/reloads_completed", (uint64_t)(EPOCH > 0 ? EPOCH : 0));
	if (LATE_ADDED) {
		/* the other source's late records must have come through every reload */
		struct spki_record kr, *res = NULL;
		unsigned int n = 0, pfx_ok = 0;

		late_key(0, &kr);
		spki_table_search_by_ski(&kt, kr.ski, &res, &n);
		lrtr_free(res);
		for (int i = 0; i < NLATE; i++) {
			struct pfx_record pr;
			enum pfxv_state st = BGP_PFXV_STATE_NOT_FOUND;

			late_prefix(i, &pr);
			pfx_table_validate(&pt, pr.asn, &pr.prefix, 32, &st);
			pfx_ok += st == BGP_PFXV_STATE_VALID;
		}
		CNT("c06/late_records_of_other_source_checked");
		if (n != NLATE || pfx_ok != NLATE)
			viol("C06", "C06:other-source-records-lost-by-reload", "after %d reloads %u of %d router keys and %u of %d prefixes the other source added after the first synchronisation are left",
			     EPOCH, n, NLATE, pfx_ok, NLATE);
	}
	if (EPOCH < nepoch || sock.state != RTR_ESTABLISHED)
		CNT("c06/runs_ended_by_horizon_before_all_reloads_completed");
	if (tot.inflight)
		nontrivial(hmix(hmix((uint64_t)c, tot.inflight), tot.n));
	if (want_sample())
		sample("{\"reloads\":%d,\"records_per_set\":%d,\"readers\":%d,\"observations\":%lu,\"in_flight\":%lu,\"flip\":%lu}", EPOCH, bs_count(&DSP[1]), nreaders,
		       tot.n, tot.inflight, tot.flips);
	sim_prepare_stop(s);
	rtr_stop(&sock);
	pfx_table_free(&pt);
	spki_table_free(&kt);
	sim_free(s);
	free(rd);
}

int main(int argc, char **argv)
{
	if (argc < 6) {
		fprintf(stderr, "usage: %s mode seed from to outfile\n", argv[0]);
		return 2;
	}
	const char *mode = argv[1];
	uint64_t seed = strtoull(argv[2], NULL, 0);
	long from = atol(argv[3]), to = atol(argv[4]);
	int nops = (int)argkv_l(argc, argv, "ops", 2000);
	int light = (int)argkv_l(argc, argv, "light", 0);
	int nepoch = (int)argkv_l(argc, argv, "epochs", 8);
	int nrec = (int)argkv_l(argc, argv, "records", 1000);
	int nreaders = (int)argkv_l(argc, argv, "readers", 8);

	vo_open(argv[5]);
	lrtr_set_alloc_functions(d_malloc, d_realloc, d_free);
	{
		pthread_t wd;

		if (!strcmp(mode, "reload")) {
			WATCH_PROP = "C06";
			WATCH_WHAT = "reload";
		}
		pthread_create(&wd, NULL, watchdog_main, NULL);
		pthread_detach(wd);
	}
	for (long c = from; c < to; c++) {
		struct rng r;

		vo_case(c);
		PROGRESS++;
		rng_seed(&r, seed, (uint64_t)c);
		if (!strcmp(mode, "lin"))
			run_lin_case(&r, c, nops, light);
		else if (!strcmp(mode, "reload"))
			run_reload_case(&r, c, nepoch, nrec, nreaders);
		else
			return 2;
		CNT("conc/runs");
	}
	cnt_add("conc/reader_allocations_delayed", ALLOC_DELAYS);
	cnt_add("c06/update_callbacks_delivered", UPDATE_CALLBACKS);
	vo_close();
	return 0;
}
