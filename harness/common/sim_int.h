#ifndef SIM_INT_H
#define SIM_INT_H
#include "sim.h"
void sim_time_advance(struct sim *s, time_t d);
void sim_disturb(struct sim *s);
void sim_queue_bytes(struct sim *s, const uint8_t *b, size_t n);
void sim_model_event_at(struct sim *s, size_t conn_off, int action, uint32_t arg, uint32_t arg2);
void sim_on_client_bytes(struct sim *s, const uint8_t *b, size_t n);
void sim_wire_conn_end(struct sim *s, const char *why);
void sim_judge_failure_if_open(struct sim *s, const char *where, int next_qtype, uint16_t next_sess, uint32_t next_serial);
void sim_answer_query(struct sim *s, uint8_t qtype, uint8_t qver, uint16_t qsess, uint32_t qserial);
void sim_apply_events(struct sim *s, bool allow_notify);
void sim_mon_on_open(struct sim *s);
void sim_mon_on_closed_by_peer(struct sim *s);
void sim_mon_model_action(struct sim *s, struct mevent *e);
void sim_mon_recv_entry(struct sim *s, size_t len, time_t timeout);
void cblog_bind(struct sim *s);
time_t sim_c08_bound(struct sim *s);
uint32_t rd32(const uint8_t *p);
uint16_t rd16(const uint8_t *p);
extern int SIM_TRACE;
#define TR(...) do { if (SIM_TRACE) { fprintf(stderr, "[t=%ld] ", (long)(VNOW - 1000000)); fprintf(stderr, __VA_ARGS__); fputc('\n', stderr);} } while (0)
#endif
