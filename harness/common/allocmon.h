/* Counting / failing allocator installed through the public lrtr_set_alloc_functions().
 * Every block carries a header (magic, size, serial) in front of the pointer handed out, so a block
 * released through libc free(), a foreign block passed to our free, a double free and a leak are each
 * detected exactly.  Failure injection: the k-th allocation request (malloc or realloc) returns NULL once.
 */
#ifndef ALLOCMON_H
#define ALLOCMON_H

#include "vcommon.h"

#include "rtrlib/lib/alloc_utils.h"

#define AM_MAGIC 0xa110c8edfeedbeefULL
#define AM_DEAD 0xdeaddeaddeaddeadULL

struct am_hdr {
	uint64_t magic;
	uint64_t size;
	uint64_t serial;
	uint64_t pad;
};

struct allocmon {
	long live_blocks;
	long live_bytes;
	unsigned long requests; /* malloc + realloc calls that ask for memory */
	unsigned long fail_at; /* 0 = never; otherwise the request with this ordinal fails */
	unsigned long failures_injected;
	unsigned long bad_free; /* block without our header / double free */
	unsigned long frees;
	int paused; /* the monitor's own lookups: neither counted nor failed */
};

extern struct allocmon AM;

static void *am_malloc(size_t size)
{
	struct am_hdr *h;

	if (!AM.paused) {
		AM.requests++;
		if (AM.fail_at && AM.requests == AM.fail_at) {
			AM.failures_injected++;
			return NULL;
		}
	}
	h = malloc(sizeof(*h) + size);
	if (!h)
		return NULL;
	h->magic = AM_MAGIC;
	h->size = size;
	h->serial = AM.requests;
	AM.live_blocks++;
	AM.live_bytes += (long)size;
	return h + 1;
}

static void am_free(void *p)
{
	struct am_hdr *h;

	if (!p)
		return;
	h = (struct am_hdr *)p - 1;
	if (h->magic != AM_MAGIC) {
		AM.bad_free++;
		return;
	}
	h->magic = AM_DEAD;
	AM.live_blocks--;
	AM.live_bytes -= (long)h->size;
	AM.frees++;
	free(h);
}

static void *am_realloc(void *p, size_t size)
{
	struct am_hdr *h, *n;

	if (!p)
		return am_malloc(size);
	if (size == 0) {
		/* realloc(p, 0): the library relies on glibc semantics (frees, returns NULL) */
		am_free(p);
		return NULL;
	}
	if (!AM.paused) {
		AM.requests++;
		if (AM.fail_at && AM.requests == AM.fail_at) {
			AM.failures_injected++;
			return NULL;
		}
	}
	h = (struct am_hdr *)p - 1;
	if (h->magic != AM_MAGIC) {
		AM.bad_free++;
		return NULL;
	}
	AM.live_bytes += (long)size - (long)h->size;
	n = realloc(h, sizeof(*h) + size);
	if (!n) {
		AM.live_bytes -= (long)size - (long)h->size;
		return NULL;
	}
	n->size = size;
	return n + 1;
}

static inline void am_install(void)
{
	lrtr_set_alloc_functions(am_malloc, am_realloc, am_free);
}

static inline void am_uninstall(void)
{
	lrtr_set_alloc_functions(malloc, realloc, free);
}

static inline void am_reset(void)
{
	memset(&AM, 0, sizeof(AM));
}

#define ALLOCMON_GLOBALS struct allocmon AM;

#endif
