/* sim part 3: the simulated RFC 8210 cache (data history, answers, scripted misbehaviour) and the
 * reference verdict on every response it emits (validate_response). */
#include "sim_int.h"

struct plist {
	uint8_t **b;
	unsigned int *len;
	int n, cap;
};

static void pl_insert(struct plist *l, int at, const uint8_t *b, unsigned int len)
{
	if (l->n == l->cap) {
		l->cap = l->cap ? l->cap * 2 : 64;
		l->b = realloc(l->b, l->cap * sizeof(*l->b));
		l->len = realloc(l->len, l->cap * sizeof(*l->len));
	}
	if (at < 0 || at > l->n)
		at = l->n;
	memmove(l->b + at + 1, l->b + at, (l->n - at) * sizeof(*l->b));
	memmove(l->len + at + 1, l->len + at, (l->n - at) * sizeof(*l->len));
	l->b[at] = malloc(len ? len : 1);
	memcpy(l->b[at], b, len);
	l->len[at] = len;
	l->n++;
}

static void pl_push(struct plist *l, const uint8_t *b, unsigned int len)
{
	pl_insert(l, l->n, b, len);
}

static void pl_remove_from(struct plist *l, int at)
{
	for (int i = at; i < l->n; i++)
		free(l->b[i]);
	if (at < l->n)
		l->n = at;
}

static void pl_free(struct plist *l)
{
	pl_remove_from(l, 0);
	free(l->b);
	free(l->len);
}

static void w32(uint8_t *o, uint32_t v)
{
	o[0] = v >> 24;
	o[1] = v >> 16;
	o[2] = v >> 8;
	o[3] = v;
}

/* ------------------------------------------------------------------ data history */
static void cur_sets(struct sim *s, bset *p, bset *k)
{
	struct cache_model *c = &s->cache;

	if (c->nhist == 0) {
		bs_zero(p);
		bs_zero(k);
		return;
	}
	*p = c->hist_p[c->nhist - 1];
	*k = c->hist_k[c->nhist - 1];
}

void sim_cache_push_dataset(struct sim *s, const bset *p, const bset *k)
{
	struct cache_model *c = &s->cache;

	if (c->nhist == MAX_HIST) {
		memmove(c->hist_p, c->hist_p + 1, (MAX_HIST - 1) * sizeof(bset));
		memmove(c->hist_k, c->hist_k + 1, (MAX_HIST - 1) * sizeof(bset));
		memmove(c->hist_serial, c->hist_serial + 1, (MAX_HIST - 1) * sizeof(uint32_t));
		c->nhist--;
	}
	if (c->nhist > 0)
		c->serial = c->serial + 1; /* wraps at 2^32 */
	c->hist_p[c->nhist] = *p;
	c->hist_k[c->nhist] = *k;
	c->hist_serial[c->nhist] = c->serial;
	c->nhist++;
}

void sim_cache_mutate(struct sim *s, int flips)
{
	bset p, k;
	int cap = s->cache.announce_cap < s->u->np ? s->cache.announce_cap : s->u->np;

	cur_sets(s, &p, &k);
	if (flips == SIM_WIPE_PREFIXES || flips == SIM_WIPE_ALL) {
		bs_zero(&p);
		if (flips == SIM_WIPE_ALL)
			bs_zero(&k);
		flips = 0;
		CNT("sim/event/cache_data_wiped");
	}
	if (flips == SIM_ADD_KEYS) {
		for (int x = 0; x < s->u->nk; x += 2)
			bs_set(&k, x);
		flips = 0;
		CNT("sim/event/cache_gets_router_keys");
	}
	for (int i = 0; i < flips; i++) {
		if (s->u->nk && rndp(&s->rng, 1, 5)) {
			int x = (int)rndn(&s->rng, (uint32_t)s->u->nk);

			if (bs_has(&k, x))
				bs_clr(&k, x);
			else
				bs_set(&k, x);
		} else if (cap) {
			int x = (int)rndn(&s->rng, (uint32_t)cap);

			if (bs_has(&p, x))
				bs_clr(&p, x);
			else
				bs_set(&p, x);
		}
	}
	sim_cache_push_dataset(s, &p, &k);
}

void sim_cache_restart(struct sim *s, bool new_data)
{
	static const uint32_t SER[] = {0, 1, 2, 0x7fffffffu, 0x80000000u, 0x80000001u, 0xfffffffeu, 0xffffffffu};
	struct cache_model *c = &s->cache;
	bset p, k;
	uint16_t ns;

	cur_sets(s, &p, &k);
	do {
		ns = (uint16_t)rnd32(&s->rng);
		if (rndp(&s->rng, 1, 4))
			ns = rndp(&s->rng, 1, 2) ? 0 : 0xffff;
	} while (ns == c->session);
	c->session = ns;
	c->serial = rndp(&s->rng, 1, 2) ? SER[rndn(&s->rng, 8)] : rnd32(&s->rng);
	c->nhist = 0;
	sim_cache_push_dataset(s, &p, &k);
	if (new_data)
		sim_cache_mutate(s, 1 + (int)rndn(&s->rng, 12));
}

void sim_cache_restart_with(struct sim *s, const bset *p, const bset *k)
{
	struct cache_model *c = &s->cache;
	uint16_t ns;

	do {
		ns = (uint16_t)rnd32(&s->rng);
	} while (ns == c->session);
	c->session = ns;
	c->serial = rnd32(&s->rng);
	c->nhist = 0;
	sim_cache_push_dataset(s, p, k);
}

/* ------------------------------------------------------------------ reference verdict */
static int size_ok(const uint8_t *p, uint32_t len, size_t avail)
{
	uint8_t ver = p[0], type = p[1];

	switch (type) {
	case 0:
		return len == 12;
	case 1:
		return len == 12;
	case 2:
		return len == 8;
	case 3:
		return len == 8;
	case 4:
		return len == 20;
	case 6:
		return len == 32;
	case 7:
		return (ver == 0 && len == 12) || (ver == 1 && len == 24);
	case 8:
		return len == 8;
	case 9:
		return len == 8 + SKI_SIZE + 4 + SPKI_SIZE;
	case 10: {
		uint32_t el, tl;

		if (len < 16 || avail < len)
			return 0;
		el = rd32(p + 8);
		if ((uint64_t)16 + el > len)
			return 0;
		tl = rd32(p + 12 + el);
		return (uint64_t)16 + el + tl == len;
	}
	default:
		return -1; /* unknown type */
	}
}

static void add_cand(struct exchange *ex, size_t off, unsigned int len, int code, int alt)
{
	if (ex->ncand < 16) {
		ex->cand[ex->ncand].off = off;
		ex->cand[ex->ncand].len = len;
		ex->cand[ex->ncand].code = code;
		ex->cand[ex->ncand].alt = alt;
		ex->cand[ex->ncand].opt = false;
		ex->ncand++;
	}
}

struct dref {
	size_t off;
	unsigned int len;
};

/* Walk the response bytes the way RFC 8210 prescribes and decide: is it a complete, well-formed
 * response that applies cleanly to B?  If not, which PDUs are in violation (and with which Error
 * Report code)?  Also registers the model events tied to delivery of particular bytes. */
static void validate_response(struct sim *s, struct exchange *ex, const uint8_t *st, size_t n, size_t base, bool first_pending,
			      int mv)
{
	size_t off = 0;
	int state = 0; /* 0 wait for Cache Response, 1 in data */
	uint16_t cur_sess = 0;
	bool have_sess = s->expect_kind == 1;
	struct dref *v4 = NULL, *v6 = NULL, *ky = NULL;
	int n4 = 0, n6 = 0, nk = 0, cap = 0;

	ex->ncand = 0;
	ex->resp_valid = false;
	ex->answer_reset = ex->answer_error = ex->truncated = false;
	cap = (int)(n / 20) + 4;
	v4 = malloc(cap * sizeof(*v4));
	v6 = malloc(cap * sizeof(*v6));
	ky = malloc(cap * sizeof(*ky));
	if (have_sess)
		cur_sess = s->expect_sess;
	while (1) {
		if (n - off < 8) {
			ex->truncated = true;
			break;
		}
		const uint8_t *p = st + off;
		uint8_t ver = p[0], type = p[1];
		uint32_t len = rd32(p + 4);

		if (first_pending) {
			/* bit 8 of the second argument: the header's length field is outside 8..RTR_MAX_PDU_LEN */
			sim_model_event_at(s, base + off + 8, MA_FIRST_HDR, ver, type | ((len >= 8 && len <= RTR_MAX_PDU_LEN) ? 0u : 0x100u));
			if (mv == 1 && ver == 0 && type != 10 && len >= 8 && len <= RTR_MAX_PDU_LEN)
				mv = 0;
			first_pending = false;
		}
		if (len < 8) {
			add_cand(ex, base + off, 8, 0, -1);
			break;
		}
		if (len > RTR_MAX_PDU_LEN) {
			add_cand(ex, base + off, 8, 0, -1);
			break;
		}
		if (type != 10 && ver != mv) {
			add_cand(ex, base + off, 8, 8, -1);
			break;
		}
		if (n - off < len) {
			ex->truncated = true;
			/* the PDU announces more bytes than the response holds.  If that length is wrong for its type anyway, the
			 * client may still get to see it in full - completed by whatever arrives next on the connection, a Serial
			 * Notify for instance - and then reports it: permitted, not demanded */
			if (type != 10 && size_ok(p, len, len) <= 0) {
				add_cand(ex, base + off, 8, 0, size_ok(p, len, len) < 0 ? 5 : -1);
				ex->cand[ex->ncand - 1].opt = true;
			}
			break;
		}
		int so = size_ok(p, len, n - off);

		if (so <= 0) {
			if (type == 10)
				ex->expect_no_report = true;
			else
				add_cand(ex, base + off, len, 0, so < 0 ? 5 : -1);
			break;
		}
		if (type == 10) {
			/* an Error Report ends the exchange; the client must not answer it with a report */
			ex->answer_error = true;
			ex->answer_err_code = rd16(p + 2);
			ex->answer_err_ver = ver;
			ex->expect_no_report = true;
			sim_model_event_at(s, base + off + len, MA_ERR_DELIVERED, rd16(p + 2), ver);
			break;
		}
		if (type == 0) { /* Serial Notify: ignored during synchronisation */
			off += len;
			continue;
		}
		if (state == 0) {
			if (type == 8) {
				ex->answer_reset = true;
				sim_model_event_at(s, base + off + len, MA_CACHE_RESET_DELIVERED, 0, 0);
				break;
			}
			if (type != 3) {
				add_cand(ex, base + off, len, 0, -1);
				break;
			}
			if (have_sess && rd16(p + 2) != cur_sess) {
				add_cand(ex, base + off, len, 0, -1);
				break;
			}
			cur_sess = rd16(p + 2);
			have_sess = true;
			state = 1;
			off += len;
			continue;
		}
		/* in data */
		if (type == 4) {
			v4[n4++] = (struct dref){off, len};
		} else if (type == 6) {
			v6[n6++] = (struct dref){off, len};
		} else if (type == 9) {
			ky[nk++] = (struct dref){off, len};
		} else if (type == 7) {
			bool ok = true;

			if (rd16(p + 2) != cur_sess) {
				add_cand(ex, base + off, len, 0, -1);
				break;
			}
			/* content rules, in the order a client may apply them: per record identity sequential */
			bset wp, wk;

			if (ex->is_full) {
				bs_zero(&wp);
				bs_zero(&wk);
			} else {
				wp = ex->B.p;
				wk = ex->B.k;
			}
			for (int pass = 0; pass < 2; pass++) {
				struct dref *lst = pass == 0 ? v4 : v6;
				int cnt = pass == 0 ? n4 : n6;

				for (int i = 0; i < cnt; i++) {
					const uint8_t *q = st + lst[i].off;
					struct prec r;
					int ix;

					memset(&r, 0, sizeof(r));
					r.fam = pass == 0 ? 4 : 6;
					r.len = q[9];
					r.maxlen = q[10];
					if (pass == 0) {
						r.a[0] = rd32(q + 12);
						r.asn = rd32(q + 16);
					} else {
						for (int w = 0; w < 4; w++)
							r.a[w] = rd32(q + 12 + 4 * w);
						r.asn = rd32(q + 28);
					}
					ix = universe_find_p(s->u, &r);
					if (q[8] > 1) {
						add_cand(ex, base + lst[i].off, lst[i].len, 0, -1);
						ok = false;
						continue;
					}
					if (ix < 0) { /* a record outside the model universe (fuzzed field values) */
						ex->content_unknown = true;
						continue;
					}
					if (q[8] == 1) {
						if (bs_has(&wp, ix)) {
							add_cand(ex, base + lst[i].off, lst[i].len, 7, -1);
							ok = false;
						} else {
							bs_set(&wp, ix);
						}
					} else {
						if (!bs_has(&wp, ix)) {
							add_cand(ex, base + lst[i].off, lst[i].len, 6, -1);
							ok = false;
						} else {
							bs_clr(&wp, ix);
						}
					}
				}
			}
			for (int i = 0; i < nk; i++) {
				const uint8_t *q = st + ky[i].off;
				struct krec r;
				int ix;

				memset(&r, 0, sizeof(r));
				memcpy(r.ski, q + 8, SKI_SIZE);
				r.asn = rd32(q + 8 + SKI_SIZE);
				memcpy(r.spki, q + 12 + SKI_SIZE, SPKI_SIZE);
				ix = universe_find_k(s->u, &r);
				if (q[2] > 1) {
					add_cand(ex, base + ky[i].off, ky[i].len, 0, -1);
					ok = false;
					continue;
				}
				if (ix < 0) {
					ex->content_unknown = true;
					continue;
				}
				if (q[2] == 1) {
					if (bs_has(&wk, ix)) {
						add_cand(ex, base + ky[i].off, ky[i].len, 7, -1);
						ok = false;
					} else {
						bs_set(&wk, ix);
					}
				} else {
					if (!bs_has(&wk, ix)) {
						add_cand(ex, base + ky[i].off, ky[i].len, 6, -1);
						ok = false;
					} else {
						bs_clr(&wk, ix);
					}
				}
			}
			if (ok) {
				ex->resp_valid = true;
				ex->exp_p = wp;
				ex->exp_k = wk;
				ex->eod_session = cur_sess;
				ex->eod_serial = rd32(p + 8);
				ex->eod_ver = ver;
				if (ver == 1) {
					ex->eod_iv[0] = rd32(p + 12);
					ex->eod_iv[1] = rd32(p + 16);
					ex->eod_iv[2] = rd32(p + 20);
				}
			}
			off += len;
			break;
		} else {
			/* Cache Response again, Cache Reset, queries: no place inside a response */
			add_cand(ex, base + off, len, 0, -1);
			break;
		}
		off += len;
	}
	ex->npdus = n4 + n6 + nk;
	free(v4);
	free(v6);
	free(ky);
}

/* ------------------------------------------------------------------ building the answer */
static int pick_in(struct sim *s, const bset *w, int limit, bool want_member)
{
	int tries = 64;

	if (limit <= 0)
		return -1;
	while (tries--) {
		int x = (int)rndn(&s->rng, (uint32_t)limit);

		if (bs_has(w, x) == want_member)
			return x;
	}
	for (int x = 0; x < limit; x++)
		if (bs_has(w, x) == want_member)
			return x;
	return -1;
}

/* working sets after the first `upto` PDUs of the list were applied sequentially to the start sets */
static void working_sets(struct sim *s, struct plist *l, int upto, const bset *p0, const bset *k0, bset *wp, bset *wk)
{
	*wp = *p0;
	*wk = *k0;
	for (int i = 0; i < upto && i < l->n; i++) {
		const uint8_t *q = l->b[i];

		if (q[1] == 4 || q[1] == 6) {
			struct prec r;
			int ix;

			memset(&r, 0, sizeof(r));
			r.fam = q[1];
			r.len = q[9];
			r.maxlen = q[10];
			if (q[1] == 4) {
				r.a[0] = rd32(q + 12);
				r.asn = rd32(q + 16);
			} else {
				for (int w = 0; w < 4; w++)
					r.a[w] = rd32(q + 12 + 4 * w);
				r.asn = rd32(q + 28);
			}
			ix = universe_find_p(s->u, &r);
			if (ix >= 0) {
				if (q[8] == 1)
					bs_set(wp, ix);
				else if (q[8] == 0)
					bs_clr(wp, ix);
			}
		} else if (q[1] == 9) {
			struct krec r;
			int ix;

			memset(&r, 0, sizeof(r));
			memcpy(r.ski, q + 8, SKI_SIZE);
			r.asn = rd32(q + 8 + SKI_SIZE);
			memcpy(r.spki, q + 12 + SKI_SIZE, SPKI_SIZE);
			ix = universe_find_k(s->u, &r);
			if (ix >= 0) {
				if (q[2] == 1)
					bs_set(wk, ix);
				else if (q[2] == 0)
					bs_clr(wk, ix);
			}
		}
	}
}

/* Error Report text: mostly a short phrase; one report in five is padded so that the whole PDU is as long as the
 * protocol allows (or a few bytes less) - the client holds a received PDU in a buffer of exactly that size */
static const char *err_text(struct rng *r, char *buf, size_t bufsz, uint32_t enc_len, const char *dflt)
{
	uint32_t total, tl;

	if (!rndp(r, 1, 5))
		return dflt;
	total = rndp(r, 1, 2) ? 3248 : 3248 - rndn(r, 12);
	tl = total - 16 - enc_len;
	if (tl + 1 > bufsz)
		return dflt;
	for (uint32_t i = 0; i < tl; i++)
		buf[i] = (char)('a' + i % 26);
	buf[tl] = 0;
	CNT(total == 3248 ? "sim/error_report_of_maximum_length" : "sim/error_report_near_maximum_length");
	return buf;
}

static void apply_defect(struct sim *s, struct exchange *ex, struct plist *l, const struct xplan *pl, int av, bool *silent,
			 bool *close_after, size_t *cut_extra)
{
	int d = pl->defect;
	int ndata = l->n - 2; /* list is [CR, data..., EOD] on entry */
	int pos = pl->pos;
	uint8_t tmp[4096];
	char etxt[3300];
	bset p0, k0, wp, wk;
	int capu = s->cache.announce_cap < s->u->np ? s->cache.announce_cap : s->u->np;
	bool use_key = av == 1 && s->u->nk > 0 && rndp(&s->rng, 1, 4);

	if (ex->is_full) {
		bs_zero(&p0);
		bs_zero(&k0);
	} else {
		p0 = ex->B.p;
		k0 = ex->B.k;
	}
	/* position classes: -2 first data PDU, -3 middle, -4 last data PDU, -5 End of Data */
	if (pos == -2)
		pos = ndata ? 1 : l->n - 1;
	else if (pos == -3)
		pos = ndata ? 1 + ndata / 2 : l->n - 1;
	else if (pos == -4)
		pos = ndata ? ndata : l->n - 1;
	else if (pos == -5)
		pos = l->n - 1;
	switch (d) {
	case D_B_NOTIFY_INSERTED: {
		size_t n = pdu_notify(tmp, av, s->cache.session, s->cache.serial);

		if (pos < 0 || pos > l->n)
			pos = (int)rndn(&s->rng, (uint32_t)l->n + 1);
		pl_insert(l, pos, tmp, (unsigned int)n);
		break;
	}
	case D_B_CHURN:
	case D_DUP_ANNOUNCE:
	case D_WITHDRAW_UNKNOWN: {
		if (pos < 1 || pos > l->n - 1)
			pos = 1 + (int)rndn(&s->rng, (uint32_t)(l->n - 1));
		working_sets(s, l, pos, &p0, &k0, &wp, &wk);
		const bset *w = use_key ? &wk : &wp;
		int lim = use_key ? s->u->nk : capu;
		bool want_member = d == D_DUP_ANNOUNCE ? true : d == D_WITHDRAW_UNKNOWN ? false : rndp(&s->rng, 1, 2);
		int x = pick_in(s, w, lim, want_member);
		size_t n;

		if (x < 0 && d == D_B_CHURN)
			x = pick_in(s, w, lim, (want_member = !want_member));
		if (x < 0 && d == D_DUP_ANNOUNCE) {
			/* nothing held at that point: announce a fresh record twice */
			x = pick_in(s, w, lim, false);
			if (x < 0)
				break;
			n = use_key ? pdu_key(tmp, av, &s->u->k[x], 1) : pdu_prefix(tmp, av, &s->u->p[x], 1);
			pl_insert(l, pos, tmp, (unsigned int)n);
			pl_insert(l, pos + 1, tmp, (unsigned int)n);
			break;
		}
		if (x < 0)
			break;
		if (d == D_DUP_ANNOUNCE) {
			n = use_key ? pdu_key(tmp, av, &s->u->k[x], 1) : pdu_prefix(tmp, av, &s->u->p[x], 1);
			pl_insert(l, pos, tmp, (unsigned int)n);
		} else if (d == D_WITHDRAW_UNKNOWN) {
			n = use_key ? pdu_key(tmp, av, &s->u->k[x], 0) : pdu_prefix(tmp, av, &s->u->p[x], 0);
			pl_insert(l, pos, tmp, (unsigned int)n);
		} else {
			/* churn: member -> withdraw then re-announce; non-member -> announce then withdraw */
			uint8_t f1 = want_member ? 0 : 1;

			n = use_key ? pdu_key(tmp, av, &s->u->k[x], f1) : pdu_prefix(tmp, av, &s->u->p[x], f1);
			pl_insert(l, pos, tmp, (unsigned int)n);
			n = use_key ? pdu_key(tmp, av, &s->u->k[x], !f1) : pdu_prefix(tmp, av, &s->u->p[x], !f1);
			pl_insert(l, pos + 1 + (int)rndn(&s->rng, (uint32_t)(l->n - pos - 1)), tmp, (unsigned int)n);
		}
		break;
	}
	case D_BAD_FLAGS: {
		if (ndata < 1) {
			int x = (int)rndn(&s->rng, (uint32_t)capu);
			size_t n = pdu_prefix(tmp, av, &s->u->p[x], (uint8_t)(2 + rndn(&s->rng, 254)));

			pl_insert(l, 1, tmp, (unsigned int)n);
			break;
		}
		if (pos < 1 || pos > ndata)
			pos = 1 + (int)rndn(&s->rng, (uint32_t)ndata);
		uint8_t fl = (uint8_t)(2 + rndn(&s->rng, 254));

		if (l->b[pos][1] == 9)
			l->b[pos][2] = fl;
		else
			l->b[pos][8] = fl;
		break;
	}
	case D_LEN_SMALL:
	case D_LEN_BIG:
	case D_LEN_TYPE: {
		static const uint32_t BIG[] = {RTR_MAX_PDU_LEN + 1, 65535, 65536, 0x7fffffffu, 0x80000000u, 0xffffffffu};

		if (pos < 0 || pos >= l->n)
			pos = (int)rndn(&s->rng, (uint32_t)l->n);
		uint32_t cur = rd32(l->b[pos] + 4), nv;

		if (d == D_LEN_SMALL)
			nv = pl->param < 8 ? pl->param : rndn(&s->rng, 8);
		else if (d == D_LEN_BIG)
			/* one time in three the low 16 bits are the PDU's true length: too big all the same */
			nv = rndp(&s->rng, 1, 3) ? cur + 65536u * (rndp(&s->rng, 1, 2) ? 1u : 1u + rndn(&s->rng, 0xffff)) : BIG[rndn(&s->rng, 6)];
		else {
			do {
				if (rndp(&s->rng, 1, 4)) {
					/* up to the largest PDU the protocol allows: whatever the client echoes in its report must
					 * still fit into a PDU of that size */
					nv = RTR_MAX_PDU_LEN - rndn(&s->rng, 80);
					CNT("sim/defect/len-type-near-maximum");
				} else {
					nv = rndp(&s->rng, 1, 2) ? cur + 1 + rndn(&s->rng, 16) : (cur > 9 ? cur - 1 - rndn(&s->rng, cur - 9) : cur + 4);
				}
			} while (nv == cur || nv < 8 || nv > RTR_MAX_PDU_LEN);
			/* an EOD whose length matches the other version's format is the EOD-format defect, still a defect */
		}
		w32(l->b[pos] + 4, nv);
		if (d == D_LEN_TYPE && (pl->param & 1)) {
			/* aligned variant: the PDU really has the announced number of bytes (padded or cut), so the PDUs
			 * behind it stay in step; only the length / type consistency is violated */
			uint8_t *nb = calloc(1, nv);

			memcpy(nb, l->b[pos], nv < l->len[pos] ? nv : l->len[pos]);
			for (uint32_t i = l->len[pos]; i < nv; i++)
				nb[i] = (uint8_t)rnd32(&s->rng);
			free(l->b[pos]);
			l->b[pos] = nb;
			l->len[pos] = nv;
			CNT("sim/defect/len-type-aligned");
		}
		break;
	}
	case D_UNKNOWN_TYPE: {
		static const uint8_t UT[] = {5, 11, 12, 100, 254, 255};

		if (pos < 0 || pos >= l->n)
			pos = (int)rndn(&s->rng, (uint32_t)l->n);
		l->b[pos][1] = UT[rndn(&s->rng, 6)];
		break;
	}
	case D_UNEXPECTED_TYPE: {
		size_t n;
		int k = (int)rndn(&s->rng, 4);

		if (pos < 1 || pos > l->n - 1)
			pos = 1 + (int)rndn(&s->rng, (uint32_t)(l->n - 1));
		if (k == 0) {
			n = pdu_notify(tmp, av, s->cache.session, 7);
			tmp[1] = 1; /* Serial Query */
		} else if (k == 1) {
			n = pdu_cache_reset(tmp, av);
			tmp[1] = 2; /* Reset Query */
		} else if (k == 2) {
			n = pdu_cache_reset(tmp, av);
		} else {
			n = pdu_cache_response(tmp, av, s->cache.session);
		}
		pl_insert(l, pos, tmp, (unsigned int)n);
		break;
	}
	case D_NO_CACHE_RESPONSE:
		free(l->b[0]);
		memmove(l->b, l->b + 1, (l->n - 1) * sizeof(*l->b));
		memmove(l->len, l->len + 1, (l->n - 1) * sizeof(*l->len));
		l->n--;
		break;
	case D_WRONG_VERSION: {
		static const uint8_t VB[] = {0, 1, 2, 255};
		uint8_t vb = pl->ver_byte;

		if (pos < 0 || pos >= l->n)
			pos = (int)rndn(&s->rng, (uint32_t)l->n);
		while (vb == av)
			vb = VB[rndn(&s->rng, 4)];
		l->b[pos][0] = vb;
		break;
	}
	case D_EOD_WRONG_FORMAT: {
		uint8_t *e = l->b[l->n - 1];
		size_t n = pdu_eod(tmp, av ? 0 : 1, rd16(e + 2), rd32(e + 8), s->cache.eod_refresh, s->cache.eod_retry,
				   s->cache.eod_expire);

		tmp[0] = (uint8_t)av;
		pl_remove_from(l, l->n - 1);
		pl_push(l, tmp, (unsigned int)n);
		break;
	}
	case D_SESSION_CR:
	case D_SESSION_EOD:
	case D_SESSION_BOTH: {
		uint16_t fs = (uint16_t)(s->cache.session ^ (1 + rndn(&s->rng, 0xffff)));

		if (d != D_SESSION_EOD) {
			l->b[0][2] = fs >> 8;
			l->b[0][3] = (uint8_t)fs;
		}
		if (d != D_SESSION_CR) {
			l->b[l->n - 1][2] = fs >> 8;
			l->b[l->n - 1][3] = (uint8_t)fs;
		}
		break;
	}
	case D_ERROR_REPORT_MID:
	case D_ERRPDU_MALFORMED: {
		size_t n;

		if (pos < 0 || pos >= l->n)
			pos = (int)rndn(&s->rng, (uint32_t)l->n);
		n = pdu_error(tmp, rndp(&s->rng, 1, 4) ? (int)rndn(&s->rng, 3) : av, (uint16_t)(pl->param ? pl->param % 9 : rndn(&s->rng, 9)),
			      l->b[0], 8, err_text(&s->rng, etxt, sizeof(etxt), 8, "simulated cache error"));
		if (d == D_ERRPDU_MALFORMED) {
			if (rndp(&s->rng, 1, 2))
				w32(tmp + 8, (uint32_t)n + rndn(&s->rng, 4000)); /* encapsulated length beyond the PDU */
			else
				w32(tmp + 12 + 8, 1 + rndn(&s->rng, 100000)); /* text length inconsistent */
		}
		pl_remove_from(l, pos);
		pl_push(l, tmp, (unsigned int)n);
		break;
	}
	case D_TRUNCATE_SILENT:
	case D_TRUNCATE_CLOSE: {
		if (pos < 0 || pos >= l->n)
			pos = (int)rndn(&s->rng, (uint32_t)l->n);
		*cut_extra = pl->param ? pl->param % l->len[pos] : rndn(&s->rng, l->len[pos]);
		if (*cut_extra) {
			l->len[pos] = (unsigned int)*cut_extra;
			pl_remove_from(l, pos + 1);
		} else {
			pl_remove_from(l, pos);
		}
		*silent = true;
		if (d == D_TRUNCATE_CLOSE)
			*close_after = true;
		break;
	}
	default:
		break;
	}
}

static void random_plan(struct sim *s, struct xplan *pl)
{
	memset(pl, 0, sizeof(*pl));
	pl->pos = -1;
	if (s->queries >= s->cfg.misbehave_until_query)
		return;
	if (s->cfg.p_override && rndn(&s->rng, 1000) < (uint32_t)s->cfg.p_override) {
		static const uint8_t ov[] = {AO_CACHE_RESET, AO_ERR_REPORT, AO_SILENCE, AO_CLOSE, AO_NEW_SESSION, AO_CACHE_RESET, AO_NEW_SESSION};

		pl->override = ov[rndn(&s->rng, 7)];
		pl->param = rndn(&s->rng, 10);
		pl->ver_byte = 255; /* = answer version */
		return;
	}
	if (s->cfg.p_defect && rndn(&s->rng, 1000) < (uint32_t)s->cfg.p_defect) {
		pl->defect = (uint8_t)(1 + rndn(&s->rng, D_COUNT - 1));
		pl->ver_byte = (uint8_t)(rndp(&s->rng, 1, 2) ? 2 : 255);
		if (rndp(&s->rng, 1, 3))
			pl->churn_first = (uint8_t)(1 + rndn(&s->rng, 3));
	}
}

void sim_answer_query(struct sim *s, uint8_t qtype, uint8_t qver, uint16_t qsess, uint32_t qserial)
{
	struct exchange *ex = &s->ex;
	struct cache_model *c = &s->cache;
	struct xplan pl;
	struct plist l = {0};
	uint8_t tmp[4096];
	int av;
	bool silent = false, close_after = false;
	size_t cut_extra = 0;
	bset cp, ck;

	memset(ex, 0, sizeof(*ex));
	ex->open = true;
	ex->idx = (int)s->queries;
	ex->qtype = qtype;
	ex->qver = qver;
	ex->qsess = qsess;
	ex->qserial = qserial;
	ex->t_query = VNOW;
	ex->expect_code = ex->expect_code_alt = -1;
	ex->is_full = qtype == 2;
	sim_snapshot(s, s->sock, &ex->B);
	ex->B_valid = true;
	ex->iv_before[0] = s->sock->refresh_interval;
	ex->iv_before[1] = s->sock->retry_interval;
	ex->iv_before[2] = s->sock->expire_interval;
	s->est_since_query = false;

	if (s->queries < s->cfg.nxplan)
		pl = s->cfg.xplan[s->queries];
	else
		random_plan(s, &pl);
	if (s->cfg.outage_until > s->cfg.outage_from) {
		time_t rel = VNOW - s->t_start;

		if (rel >= s->cfg.outage_from && rel < s->cfg.outage_until) {
			memset(&pl, 0, sizeof(pl));
			pl.pos = -1;
			pl.ver_byte = 255;
			switch (s->cfg.outage_mode) {
			case 2:
				pl.override = AO_SILENCE;
				break;
			case 3:
				pl.override = AO_ERR_REPORT;
				pl.param = 1;
				break;
			case 4:
				pl.override = AO_ERR_REPORT;
				pl.param = 2;
				break;
			case 5:
				if (qtype == 1)
					pl.override = AO_CACHE_RESET;
				else
					pl.defect = D_TRUNCATE_SILENT;
				break;
			case 6:
				if (qtype == 1)
					pl.override = AO_CACHE_RESET;
				else
					pl.defect = rndp(&s->rng, 1, 2) ? D_DUP_ANNOUNCE : D_BAD_FLAGS;
				break;
			case 7:
				pl.override = AO_CLOSE; /* takes the query and hangs up without a byte */
				break;
			case 8:
				/* answers, but every answer breaks off with an Error Report behind the Cache Response */
				pl.defect = D_ERROR_REPORT_MID;
				pl.pos = 1;
				pl.param = 1;
				close_after = true; /* ... and the cache hangs up */
				break;
			default:
				break;
			}
			CNT("sim/outage/answers");
		}
	}
	ex->override = pl.override;
	ex->defect = pl.defect;
	ex->defect_pos = pl.pos;
	if (pl.override != AO_NORMAL || pl.defect > D_B_CHURN)
		sim_disturb(s);
	cntf(1, "sim/answer/override-%d", pl.override);
	if (pl.defect)
		cntf(1, "sim/defect/%s", DEFECT_NAME[pl.defect]);

	/* protocol version of the answer */
	av = qver;
	if (c->version == 0 && qver >= 1) {
		if (c->v0_mode == 0) {
			av = 0;
		} else if (c->v0_mode == 1) {
			pl.override = AO_ERR_REPORT;
			pl.param = 4;
			pl.ver_byte = 0;
			pl.defect = D_NONE;
			CNT("sim/v0cache/unsupported-version-report");
		} else {
			pl.override = AO_CLOSE;
			pl.defect = D_NONE;
			CNT("sim/v0cache/hangs-up");
		}
	}
	if (av > 1)
		av = 1;

	if (s->restart_every_poll && qtype == 1 && s->presets_p) {
		if (s->preset_next == 0)
			s->preset_next = 1;
		if (s->preset_next < s->npresets) {
			sim_cache_restart_with(s, &s->presets_p[s->preset_next], &s->presets_k[s->preset_next]);
			s->preset_next++;
		}
	}
	if (pl.override == AO_NEW_SESSION) {
		sim_cache_restart(s, true);
		pl.override = AO_NORMAL;
	}
	size_t base = s->delivered_total + (s->in_len - s->in_pos);
	bool first_pending = s->first_pdu_pending;

	ex->resp_off = base; /* also for answers that consist of nothing (silence, hanging up) */
	ex->resp_len = 0;
	uint8_t *stream = NULL;
	size_t slen = 0;

	if (pl.override == AO_SILENCE) {
		s->silent = true;
		goto done;
	}
	if (pl.override == AO_CLOSE) {
		s->peer_closed = true;
		goto done;
	}
	if (pl.override == AO_RAW && s->cfg.rawgen) {
		static uint8_t rawbuf[70000];
		size_t n = s->cfg.rawgen(s, rawbuf, sizeof(rawbuf), s->cfg.fuzz_seed, (int)s->queries);

		pl_push(&l, rawbuf, (unsigned int)n);
		ex->has_response = true;
		silent = true;
		close_after = s->cfg.raw_close_after;
	} else if (pl.override == AO_CACHE_RESET) {
		pl_push(&l, tmp, (unsigned int)pdu_cache_reset(tmp, av));
	} else if (pl.override == AO_ERR_REPORT || c->no_data) {
		uint8_t q[16];
		size_t qn;
		int code = c->no_data && pl.override != AO_ERR_REPORT ? 2 : (int)pl.param;
		int ev = (pl.ver_byte == 255 || pl.override != AO_ERR_REPORT) ? av : pl.ver_byte;

		qn = pdu_notify(q, qver, qsess, qserial);
		q[1] = qtype;
		if (qtype == 2) {
			qn = 8;
			w32(q + 4, 8);
		}
		{
			char etxt[3300];

			pl_push(&l, tmp, (unsigned int)pdu_error(tmp, ev, (uint16_t)code, q, (uint32_t)qn,
							      err_text(&s->rng, etxt, sizeof(etxt), (uint32_t)qn, code == 2 ? "No data available" : "simulated")));
		}
	} else {
		/* a regular answer derived from the data history */
		int from = -1;

		cur_sets(s, &cp, &ck);
		if (qtype == 1) {
			if (qsess == c->session) {
				for (int i = 0; i < c->nhist; i++)
					if (c->hist_serial[i] == qserial)
						from = i;
			}
			if (from < 0) {
				pl_push(&l, tmp, (unsigned int)pdu_cache_reset(tmp, av));
				CNT("sim/answer/cache-reset-unknown-serial-or-session");
				goto serialise;
			}
		}
		pl_push(&l, tmp, (unsigned int)pdu_cache_response(tmp, av, c->session));
		/* announcements / withdrawals in random interleaving */
		{
			int cap = s->u->np;
			int *ord = malloc((cap + s->u->nk + 1) * sizeof(int));
			int no = 0;

			for (int i = 0; i < cap; i++) {
				bool now_in = bs_has(&cp, i), was = from >= 0 ? bs_has(&c->hist_p[from], i) : false;

				if (now_in != was)
					ord[no++] = i;
			}
			if (av == 1) {
				for (int i = 0; i < s->u->nk; i++) {
					bool now_in = bs_has(&ck, i), was = from >= 0 ? bs_has(&c->hist_k[from], i) : false;

					if (now_in != was)
						ord[no++] = MAX_P + i;
				}
			}
			for (int i = no - 1; i > 0; i--) {
				int j = (int)rndn(&s->rng, (uint32_t)i + 1), t = ord[i];

				ord[i] = ord[j];
				ord[j] = t;
			}
			for (int i = 0; i < no; i++) {
				size_t n;

				if (ord[i] >= MAX_P) {
					int x = ord[i] - MAX_P;

					n = pdu_key(tmp, av, &s->u->k[x], bs_has(&ck, x) ? 1 : 0);
				} else {
					n = pdu_prefix(tmp, av, &s->u->p[ord[i]], bs_has(&cp, ord[i]) ? 1 : 0);
				}
				/* the must-be-zero byte is not always zero on the wire; a client tolerates that, and an Error
				 * Report must still echo the PDU as it was received */
				if (rndp(&s->rng, 1, 6))
					tmp[tmp[1] == 9 ? 3 : 11] = (uint8_t)(1 + rndn(&s->rng, 255));
				pl_push(&l, tmp, (unsigned int)n);
			}
			free(ord);
		}
		pl_push(&l, tmp, (unsigned int)pdu_eod(tmp, av, c->session, c->serial, c->eod_refresh, c->eod_retry, c->eod_expire));
		ex->has_response = true;
		if (qtype == 2 && s->on_reset_answer)
			s->on_reset_answer(s);
		for (int i = 0; i < pl.churn_first; i++) {
			struct xplan ch = pl;

			ch.defect = D_B_CHURN;
			ch.pos = (int16_t)(i == 0 ? -2 : -1);
			apply_defect(s, ex, &l, &ch, av, &silent, &close_after, &cut_extra);
			CNT("sim/defect/compound-churn-pairs");
		}
		if (pl.defect != D_NONE)
			apply_defect(s, ex, &l, &pl, av, &silent, &close_after, &cut_extra);
	}
serialise:
	for (int i = 0; i < l.n; i++)
		slen += l.len[i];
	stream = malloc(slen ? slen : 1);
	slen = 0;
	for (int i = 0; i < l.n; i++) {
		memcpy(stream + slen, l.b[i], l.len[i]);
		slen += l.len[i];
	}
	validate_response(s, ex, stream, slen, base, first_pending, s->mv);
	ex->resp_off = base;
	ex->resp_len = slen;
	sim_queue_bytes(s, stream, slen);
	if (slen)
		s->first_pdu_pending = false;
	sim_model_event_at(s, base + slen, MA_RESPONSE_END, 0, 0);
	if (silent)
		s->silent = true;
	if (close_after)
		s->peer_closed = true;
	cntf(1, "sim/response/%s", ex->resp_valid ? "valid" : ex->answer_reset ? "cache-reset" : ex->answer_error ? "error-report" : ex->truncated ? "truncated" : "defective");
	if (!ex->resp_valid && !ex->answer_reset) {
		/* whatever the plan called it: a response the reference validator does not accept is a disturbance (a "benign"
		 * variation can turn out not to be one - churn of a record that the full set announces further down) */
		sim_disturb(s);
		if (pl.override == AO_NORMAL && pl.defect <= D_B_CHURN)
			CNT("sim/benign_variations_that_made_the_response_invalid");
	}
	free(stream);
done:
	pl_free(&l);
}
