/* sim part 4: monitors.  Wire monitor (C14, C13, C05, C17), exchange oracle (C03, C05, C13),
 * expiry / stop monitor (C07), convergence (C08), state trace. */
#include "sim_int.h"

static const char *dname(struct sim *s)
{
	return s->ex.override ? "override" : DEFECT_NAME[s->ex.defect];
}

/* ------------------------------------------------------------------ C05 expectation */
static void expect_reset(struct sim *s, const char *why)
{
	s->expect_kind = 0;
	s->accept_reset_too = false;
	cntf(1, "c05/reset_event/%s", why);
}

/* ------------------------------------------------------------------ exchange verdicts */
static void judge_success(struct sim *s)
{
	struct exchange *ex = &s->ex;
	struct snap A;
	char key[160];

	if (!ex->open || s->monitors_off) {
		ex->open = false;
		return;
	}
	ex->client_success = true;
	sim_snapshot(s, s->sock, &A);
	CNT("c03/exchanges_judged_success");
	if (ex->content_unknown && ex->ncand == 0 && !ex->truncated) {
		/* fuzzed records the model cannot name: only the framing verdict applies, and it found nothing */
		CNT("c04/accepted_responses_with_unmodelled_records");
		ex->resp_valid = false;
		s->expect_kind = 1;
		s->expect_sess = (uint16_t)s->sock->session_id;
		s->expect_serial = s->sock->serial_number;
		s->t_ok = VNOW;
		s->t_valid = VNOW;
		s->holds_data = true;
		s->ever_synced = true;
		ex->open = false;
		return;
	}
	if (!ex->resp_valid) {
		/* the client accepted something the reference verdict rejects */
		snprintf(key, sizeof(key), "C03:accepted-defective-response:%s", dname(s));
		viol("C03", key, "client went ESTABLISHED on a response that is not well-formed (defect %s at pos %d, query type %u, candidates %d, truncated %d)",
		     dname(s), ex->defect_pos, ex->qtype, ex->ncand, ex->truncated);
		if (ex->defect == D_SESSION_CR || ex->defect == D_SESSION_EOD || ex->defect == D_SESSION_BOTH) {
			snprintf(key, sizeof(key), "C05:foreign-session-accepted:%s", dname(s));
			viol("C05", key, "a response with a foreign session id (%s) was accepted", dname(s));
		}
		if (ex->defect == D_WRONG_VERSION || ex->defect == D_EOD_WRONG_FORMAT) {
			snprintf(key, sizeof(key), "C13:foreign-version-accepted:%s", dname(s));
			viol("C13", key, "a response with a PDU of another protocol version / format (%s) was accepted", dname(s));
		}
		if (ex->defect >= D_LEN_SMALL && ex->defect <= D_UNKNOWN_TYPE) {
			snprintf(key, sizeof(key), "C04:misframed-accepted:%s", dname(s));
			viol("C04", key, "a mis-framed PDU (%s) did not make the exchange fail", dname(s));
		}
	} else {
		if (!bs_eq(&A.p, &ex->exp_p) || !bs_eq(&A.k, &ex->exp_k) || A.foreign || A.dup) {
			snprintf(key, sizeof(key), "C03:wrong-result-after-success:%s:%s", ex->is_full ? "full" : "delta", dname(s));
			viol("C03", key, "after a successful %s response: prefixes %d (expected %d), keys %d (expected %d), equal=%d/%d foreign=%d dup=%d",
			     ex->is_full ? "full" : "incremental", bs_count(&A.p), bs_count(&ex->exp_p), bs_count(&A.k),
			     bs_count(&ex->exp_k), bs_eq(&A.p, &ex->exp_p), bs_eq(&A.k, &ex->exp_k), A.foreign, A.dup);
		}
		if (s->sock->serial_number != ex->eod_serial || (uint16_t)s->sock->session_id != ex->eod_session) {
			snprintf(key, sizeof(key), "C03:serial-not-stored:%s", ex->is_full ? "full" : "delta");
			viol("C03", key, "End of Data carried session %u serial %u, socket stores session %u serial %u", ex->eod_session,
			     ex->eod_serial, s->sock->session_id, s->sock->serial_number);
		}
		/* C09: a reload reports only the net difference */
		if (s->cb && s->cb->enabled_p && ex->is_full && !(bs_empty(&ex->B.p) && bs_empty(&ex->B.k))) {
			unsigned int want = 0;

			for (int i = 0; i < BS_WORDS; i++)
				want += (unsigned int)__builtin_popcountll(ex->B.p.w[i] ^ A.p.w[i]);
			CNT("c09/reload_netdiff_checks");
			if (ex->cb_pfx != want) {
				snprintf(key, sizeof(key), "C09:reload-not-net-difference:%s", bs_empty(&ex->B.p) ? "first-load" : "reload");
				viol("C09", key, "full response over %d held prefixes -> %d: %u callbacks, net difference is %u", bs_count(&ex->B.p),
				     bs_count(&A.p), ex->cb_pfx, want);
			}
		}
		nontrivial(hmix(hmix(bs_hash(&ex->B.p), bs_hash(&A.p)), hmix(ex->qtype, ex->defect)));
	}
	sim_check_others(s, "after-success");
	cblog_check_against_tables(s, "after-success");
	if (ex->resp_valid)
		s->tfault_on_conn = false; /* the client is evidently in step with the stream again */
	/* C05 / C07 bookkeeping follows the client's own verdict */
	if (ex->resp_valid) {
		s->expect_kind = 1;
		s->expect_sess = ex->eod_session;
		s->expect_serial = ex->eod_serial;
		s->accept_reset_too = false;
		s->ever_synced = true;
		s->t_ok = VNOW;
		s->t_valid = VNOW;
		s->holds_data = true;
		s->expect_reset_after_expiry = false;
		/* C17: intervals after End of Data */
		{
			static const uint32_t MINV[3] = {1, 1, 600}, MAXV[3] = {86400, 7200, 172800};
			unsigned int got[3] = {s->sock->refresh_interval, s->sock->retry_interval, s->sock->expire_interval};
			unsigned int before[3] = {ex->iv_before[0], ex->iv_before[1], ex->iv_before[2]};
			static const char *nm[3] = {"refresh", "retry", "expire"};

			for (int i = 0; i < 3; i++) {
				uint32_t sent = ex->eod_iv[i], want;
				bool inside = sent >= MINV[i] && sent <= MAXV[i];

				if (ex->eod_ver == 0 || s->cfg.iv_mode == RTR_INTERVAL_MODE_IGNORE_ANY)
					want = before[i];
				else if (s->cfg.iv_mode == RTR_INTERVAL_MODE_ACCEPT_ANY)
					want = sent;
				else if (s->cfg.iv_mode == RTR_INTERVAL_MODE_DEFAULT_MIN_MAX)
					want = sent < MINV[i] ? MINV[i] : sent > MAXV[i] ? MAXV[i] : sent;
				else
					want = inside ? sent : before[i];
				CNT("c17/interval_checks");
				if (got[i] != want) {
					snprintf(key, sizeof(key), "C17:interval:%s:mode-%d:v%d", nm[i], s->cfg.iv_mode, ex->eod_ver);
					viol("C17", key, "%s interval after End of Data (v%d, sent %u, mode %d, before %u) is %u, expected %u", nm[i],
					     ex->eod_ver, sent, s->cfg.iv_mode, before[i], got[i], want);
				}
				/* what is in force now is the baseline for the next End of Data */
				before[i] = got[i];
			}
			s->cfg.refresh = got[0];
			s->cfg.retry = got[1];
			s->cfg.expire = got[2];
		}
	} else {
		/* keep the monitors in step with what the client now believes, so one defect is reported once */
		s->expect_kind = 1;
		s->expect_sess = (uint16_t)s->sock->session_id;
		s->expect_serial = s->sock->serial_number;
		s->t_ok = VNOW;
		if (!s->t_valid)
			s->t_valid = VNOW; /* a first load: there is no earlier truth to measure the age of the data from */
		s->holds_data = true;
	}
	ex->open = false;
}

/* C17, the invariant behind the per-End-of-Data table: rtr_init admits in-range settings only and every mode except
 * accept-any takes over in-range values only, so as long as the socket has never been in accept-any mode its three
 * intervals lie within the RFC 8210 ranges at all times - also after exchanges that failed, however they failed */
static void c17_range_invariant(struct sim *s, const char *where)
{
	static const uint32_t MINV[3] = {1, 1, 600}, MAXV[3] = {86400, 7200, 172800};
	static const char *nm[3] = {"refresh", "retry", "expire"};
	unsigned int got[3];
	char key[128];

	if (s->cfg.iv_mode == RTR_INTERVAL_MODE_ACCEPT_ANY)
		s->ever_accept_any = true;
	if (s->ever_accept_any || !s->sock)
		return;
	got[0] = s->sock->refresh_interval;
	got[1] = s->sock->retry_interval;
	got[2] = s->sock->expire_interval;
	CNT("c17/range_invariant_checks");
	for (int i = 0; i < 3; i++)
		if (got[i] < MINV[i] || got[i] > MAXV[i]) {
			snprintf(key, sizeof(key), "C17:interval-out-of-range:%s:%s:mode-%d", nm[i], where, s->cfg.iv_mode);
			viol("C17", key, "%s interval is %u (%s, interval mode %d, never accept-any): outside %u..%u", nm[i], got[i], where, s->cfg.iv_mode, MINV[i],
			     MAXV[i]);
		}
}

void sim_judge_failure_if_open(struct sim *s, const char *where, int next_qtype, uint16_t next_sess, uint32_t next_serial)
{
	struct exchange *ex = &s->ex;
	struct snap A;
	char key[160];

	if (!ex->open)
		return;
	ex->open = false;
	if (s->monitors_off)
		return;
	c17_range_invariant(s, "after-a-failed-exchange");
	sim_snapshot(s, s->sock, &A);
	CNT("c03/exchanges_judged_failure");
	cntf(1, "c03/failure_judged_at/%s", where);
	bool same = bs_eq(&A.p, &ex->B.p) && bs_eq(&A.k, &ex->B.k) && !A.foreign && !A.dup;
	bool gone = bs_empty(&A.p) && bs_empty(&A.k) && !A.foreign;

	if (!same && !gone) {
		snprintf(key, sizeof(key), "C03:partial-state-after-failure:%s", dname(s));
		viol("C03", key, "failed exchange (%s pos %d, query type %u, judged at %s): prefixes %d->%d keys %d->%d: neither the old state nor purged",
		     dname(s), ex->defect_pos, ex->qtype, where, bs_count(&ex->B.p), bs_count(&A.p), bs_count(&ex->B.k), bs_count(&A.k));
		if (ex->defect >= D_LEN_SMALL && ex->defect <= D_UNKNOWN_TYPE) {
			snprintf(key, sizeof(key), "C04:misframed-applied:%s", dname(s));
			viol("C04", key, "a response with a mis-framed PDU (%s) changed the tables", dname(s));
		}
		if (ex->defect == D_WRONG_VERSION || ex->defect == D_EOD_WRONG_FORMAT)
			viol("C13", "C13:foreign-version-applied", "content of a response refused for its version was applied");
		if (ex->defect >= D_SESSION_CR && ex->defect <= D_SESSION_BOTH)
			viol("C05", "C05:foreign-session-applied", "payload of a response with a foreign session id was applied");
	} else if (next_qtype >= 0) {
		bool prev_was_reset = ex->qtype == 2;
		bool next_is_reset = next_qtype == 2;
		bool next_same = prev_was_reset ? next_is_reset
						: (next_qtype == 1 && next_sess == ex->qsess && next_serial == ex->qserial);
		bool purged = gone && !(bs_empty(&ex->B.p) && bs_empty(&ex->B.k));

		CNT("c03/next_query_checks");
		if (purged && !next_is_reset) {
			snprintf(key, sizeof(key), "C03:purged-but-serial-query:%s", dname(s));
			viol("C03", key, "records were purged after the failed exchange but the next query is a Serial Query");
		} else if (!purged && !next_same && !(gone && next_is_reset)) {
			/* unchanged records: the next query must be what it was before (a time-driven
			 * expiry in between makes it a Reset Query with the records gone, handled above) */
			bool reset_legit = next_is_reset && (s->expect_kind == 0 || s->accept_reset_too || ex->answer_reset ||
							     (ex->answer_error && ex->answer_err_code == 2));

			if (!reset_legit) {
				snprintf(key, sizeof(key), "C03:next-query-differs:%s", dname(s));
				viol("C03", key, "records unchanged after the failed exchange (%s) but the next query (type %d session %u serial %u) differs from the previous one (type %u session %u serial %u)",
				     dname(s), next_qtype, next_sess, next_serial, ex->qtype, ex->qsess, ex->qserial);
			}
		}
		if (purged)
			expect_reset(s, "purged-after-failure");
	}
	if ((same || gone) && next_qtype < 0) {
		/* judged at a reconnect or at the end of a phase: the query that follows is checked when it arrives */
		s->c03_next.armed = true;
		s->c03_next.purged = gone && !(bs_empty(&ex->B.p) && bs_empty(&ex->B.k));
		s->c03_next.qtype = ex->qtype;
		s->c03_next.sess = ex->qsess;
		s->c03_next.serial = ex->qserial;
		s->c03_next.defect = ex->defect;
		s->c03_next.override = ex->override;
		s->c03_next.reset_legit = s->expect_kind == 0 || s->accept_reset_too || ex->answer_reset || (ex->answer_error && ex->answer_err_code == 2) ||
					  (gone && bs_empty(&ex->B.p) && bs_empty(&ex->B.k));
	}
	if (gone && !(bs_empty(&ex->B.p) && bs_empty(&ex->B.k))) {
		expect_reset(s, "purged-after-failure");
		s->holds_data = false;
	} else if (gone) {
		s->accept_reset_too = true; /* nothing held before or after: a purge is indistinguishable */
	}
	nontrivial(hmix(hmix(bs_hash(&ex->B.p), 0xfa11), hmix(hmix(ex->defect, ex->override), (uint64_t)ex->defect_pos)));
	sim_check_others(s, "after-failure");
	cblog_check_against_tables(s, "after-failure");
}

/* ------------------------------------------------------------------ wire monitor */
static void on_query(struct sim *s, const uint8_t *p, uint32_t len)
{
	uint8_t type = p[1], ver = p[0];
	uint16_t sess = rd16(p + 2);
	uint32_t serial = type == 1 ? rd32(p + 8) : 0;
	char key[160];

	s->wire.queries++;
	/* query storm: exchanges repeat although virtual time stands still (the transport-call spin monitor is
	 * blind to it because every round consumes input) */
	if (VNOW == s->t_last_query) {
		if (++s->queries_same_second > 3000 && !s->spin_reported && s->sock->refresh_interval == 0) {
			/* a refresh interval of 0 can only come from an End of Data under the accept-any interval mode: polling
			 * back to back is then what the application asked for, not a loop of the client's own making.  Virtual
			 * time will never move again, so the scenario is brought to an end here, without a verdict. */
			s->spin_reported = true;
			s->finished = true;
			CNT("c08/scenarios_ended_polling_with_refresh_interval_0");
		} else if (s->queries_same_second > 3000 && !s->spin_reported) {
			s->spin_reported = true;
			VO.muted = false;
			viol("C08", "C08:spin:query-storm", "%ld queries sent without virtual time advancing (socket state %d)", s->queries_same_second, s->sock->state);
			viol("C04", "C04:spin:query-storm", "client repeats exchanges without letting time advance");
			s->finished = true;
			vo_abort_case();
		}
	} else {
		s->t_last_query = VNOW;
		s->queries_same_second = 0;
	}
	s->errpdu_delivered_on_conn = false; /* "no report in reply to an Error Report" is per exchange */
	CNT(type == 1 ? "wire/serial_queries" : "wire/reset_queries");
	sim_judge_failure_if_open(s, "next-query", type, sess, serial);
	if (s->c03_next.armed) {
		bool next_is_reset = type == 2;
		bool next_same = s->c03_next.qtype == 2 ? next_is_reset : (type == 1 && sess == s->c03_next.sess && serial == s->c03_next.serial);
		bool legit_reset = next_is_reset && (s->c03_next.reset_legit || s->expect_kind == 0 || s->accept_reset_too);

		s->c03_next.armed = false;
		CNT("c03/next_query_checks_after_reconnect");
		if (s->c03_next.purged && !next_is_reset) {
			viol("C03", "C03:purged-but-serial-query:after-reconnect", "records were purged after the failed exchange but the query after the reconnect is a Serial Query (session %u serial %u)",
			     sess, serial);
		} else if (!s->c03_next.purged && !next_same && !legit_reset) {
			snprintf(key, sizeof(key), "C03:next-query-differs:after-reconnect:%s", s->c03_next.override ? "override" : DEFECT_NAME[s->c03_next.defect]);
			viol("C03", key, "records unchanged after the failed exchange, but the query after the reconnect (type %u session %u serial %u) differs from the one before (type %u session %u serial %u)",
			     type, sess, serial, s->c03_next.qtype, s->c03_next.sess, s->c03_next.serial);
		}
	}

	/* C07: the first query after a connect that followed expiry must be a Reset Query */
	if (s->expect_reset_after_expiry) {
		CNT("c07/first_query_after_expiry_checks");
		if (type != 2)
			viol("C07", "C07:serial-query-after-expiry", "more than the expire interval passed since the last synchronisation, yet the conversation restarts with a Serial Query (session %u serial %u)",
			     sess, serial);
		s->expect_reset_after_expiry = false;
	}
	/* C05 */
	CNT("c05/queries_checked");
	if (s->expect_kind == 0) {
		if (type != 2) {
			viol("C05", "C05:serial-query-where-reset-expected", "expected a Reset Query, client sent Serial Query session %u serial %u", sess,
			     serial);
			s->expect_kind = 1;
			s->expect_sess = sess;
			s->expect_serial = serial;
		}
	} else {
		if (type == 2) {
			if (!s->accept_reset_too) {
				viol("C05", "C05:reset-query-where-serial-expected", "expected Serial Query (session %u serial %u), client sent a Reset Query",
				     s->expect_sess, s->expect_serial);
			}
			s->expect_kind = 0;
		} else if (sess != s->expect_sess || serial != s->expect_serial) {
			snprintf(key, sizeof(key), "C05:wrong-%s", sess != s->expect_sess ? "session" : "serial");
			viol("C05", key, "Serial Query carries session %u serial %u, last completed synchronisation had session %u serial %u", sess,
			     serial, s->expect_sess, s->expect_serial);
			s->expect_sess = sess;
			s->expect_serial = serial;
		}
	}
	if (type == 1 && (serial == 0 || serial == 0xffffffffu || serial == 0x7fffffffu || serial == 0x80000000u))
		CNT("c05/boundary_serials_in_queries");
	/* C17: polling while established */
	if (s->last_state == RTR_ESTABLISHED) {
		CNT("c17/polls_from_established");
		if (s->notify_pending_poll) {
			CNT("c17/polls_after_notify");
			if (VNOW != s->t_notify)
				viol("C17", "C17:poll-delayed-after-notify", "Serial Notify delivered at %ld, Serial Query sent at %ld", (long)s->t_notify,
				     (long)VNOW);
		} else if (s->t_ok && VNOW > s->t_ok + (time_t)s->sock->refresh_interval && !s->tfault_on_conn) {
			/* (a transport that stalls in the middle of a PDU legitimately delays the poll by a receive timeout) */
			viol("C17", "C17:poll-later-than-refresh", "last synchronisation at %ld, refresh %u, Serial Query only at %ld", (long)s->t_ok,
			     s->sock->refresh_interval, (long)VNOW);
		}
	}
	s->notify_pending_poll = false;
	/* C13: the version every query carries */
	CNT("c13/query_versions_checked");
	if (ver != s->mv && s->mv_optional_lower && (int)ver == s->mv - 1)
		s->mv = ver;
	s->mv_optional_lower = false;
	if (ver != s->mv) {
		snprintf(key, sizeof(key), "C13:query-version:%u-expected-%d", ver, s->mv);
		viol("C13", key, "query carries protocol version %u, the negotiated version is %d", ver, s->mv);
		s->mv = ver <= 1 ? ver : s->mv;
	}
	sim_answer_query(s, type, ver, sess, serial);
	TR("query#%ld type=%u ver=%u sess=%u serial=%u -> answer %s override=%d valid=%d reset=%d err=%d(code %d) len=%zu mv=%d", s->queries, type, ver, sess, serial,
	   DEFECT_NAME[s->ex.defect], s->ex.override, s->ex.resp_valid, s->ex.answer_reset, s->ex.answer_error, s->ex.answer_err_code, s->ex.resp_len, s->mv);
	s->queries++;
	if (want_sample() && s->queries == 2)
		sample("{\"query\":%ld,\"type\":%u,\"version\":%u,\"session\":%u,\"serial\":%u,\"answer\":\"%s\",\"held_prefixes\":%d,\"held_keys\":%d,\"vtime\":%ld}",
		       s->queries - 1, type, ver, sess, serial, dname(s), bs_count(&s->ex.B.p), bs_count(&s->ex.B.k), (long)(VNOW - s->t_start));
}

static void on_report(struct sim *s, const uint8_t *p, uint32_t len)
{
	struct exchange *ex = &s->ex;
	uint16_t code = rd16(p + 2);
	uint32_t el = rd32(p + 8), tl;
	char key[160];

	s->wire.reports++;
	s->reports_on_conn++;
	TR("client error report code=%u enc_len=%u len=%u", code, el, len);
	cntf(1, "wire/error_reports/code-%u", code);
	if ((uint64_t)16 + el > len) {
		viol("C14", "C14:report-encapsulated-length", "Error Report of %u bytes claims %u encapsulated bytes", len, el);
		return;
	}
	tl = rd32(p + 12 + el);
	if ((uint64_t)16 + el + tl != len) {
		viol("C14", "C14:report-text-length", "Error Report: 16 + encapsulated %u + text %u != PDU length %u", el, tl, len);
		return;
	}
	if (el >= 2 && p[12 + 1] == 10)
		viol("C14", "C14:report-in-reply-to-report", "Error Report encapsulates an Error Report PDU");
	if (s->errpdu_delivered_on_conn && !s->tfault_on_conn)
		viol("C14", "C14:report-after-error-report", "client sent an Error Report (code %u) after the cache's Error Report was delivered", code);
	/* the encapsulated bytes must be bytes the cache really sent on this connection */
	if (el > 0) {
		if (!memmem(s->dlog, s->dlog_len, p + 12, el)) {
			snprintf(key, sizeof(key), "C14:encapsulated-not-as-received:code-%u", code);
			viol("C14", key, "Error Report (code %u) encapsulates %u bytes that do not occur in what the cache sent (first bytes %02x%02x%02x%02x %02x%02x%02x%02x)",
			     code, el, p[12], p[13], el > 2 ? p[14] : 0, el > 3 ? p[15] : 0, el > 4 ? p[16] : 0, el > 5 ? p[17] : 0,
			     el > 6 ? p[18] : 0, el > 7 ? p[19] : 0);
		}
		CNT("c14/encapsulated_copies_checked");
	}
	if (ex->open)
		ex->reports_seen++;
	/* strong check: on an undisturbed connection the first report must name one of the offending PDUs */
	if (ex->open && !s->tfault_on_conn && !ex->first_report_checked) {
		ex->first_report_checked = true;
		CNT("c14/first_reports_judged");
		if (ex->ncand == 0 && SIM_ALLOC_PAUSE && code == 1) {
			/* Internal Error while an allocation failure is being injected: legitimate */
			CNT("c14/internal_error_reports_under_alloc_failure");
		} else if (ex->ncand == 0) {
			snprintf(key, sizeof(key), "C14:report-without-violation:code-%u:%s", code, dname(s));
			viol("C14", key, "client sent Error Report code %u although the response so far contains no violation (%s)", code, dname(s));
		} else {
			bool ok = false;
			bool code_ok = false;

			for (int i = 0; i < ex->ncand && !ok; i++) {
				bool c = (int)code == ex->cand[i].code || (int)code == ex->cand[i].alt;
				size_t rel = ex->cand[i].off - ex->resp_off;

				code_ok |= c;
				if (!c)
					continue;
				if (el == 0) {
					ok = true;
				} else if (el <= ex->cand[i].len) {
					/* candidate bytes live in the queued stream: dlog holds what was delivered of it */
					if (ex->cand[i].off + el <= s->dlog_len && memcmp(s->dlog + ex->cand[i].off, p + 12, el) == 0)
						ok = true;
				}
				(void)rel;
			}
			if (!code_ok && ex->ncand == 1 && ex->cand[0].code == 8) {
				/* C13 names the report: a PDU of another version than the negotiated one is refused with
				 * Unexpected Protocol Version (8), whatever the foreign version byte is */
				snprintf(key, sizeof(key), "C13:foreign-version-refused-with-code-%u", code);
				viol("C13", key, "a PDU whose version differs from the negotiated one was refused with Error Report code %u instead of 8 (%s)", code, dname(s));
			}
			if (!code_ok) {
				snprintf(key, sizeof(key), "C14:wrong-error-code:%s:got-%u", dname(s), code);
				viol("C14", key, "violation %s: client reported code %u, expected %d%s", dname(s), code, ex->cand[0].code,
				     ex->cand[0].alt >= 0 ? " (or alt)" : "");
			} else if (!ok) {
				snprintf(key, sizeof(key), "C14:encapsulated-not-prefix-of-offending-pdu:%s", dname(s));
				viol("C14", key, "violation %s: the %u encapsulated bytes are not a byte-exact prefix of the offending PDU", dname(s), el);
			}
		}
	}
}

static void on_client_pdu(struct sim *s, const uint8_t *p, uint32_t len)
{
	uint8_t ver = p[0], type = p[1];
	char key[128];

	s->wire.pdus++;
	CNT("wire/pdus_parsed");
	if (type == 1 || type == 2) {
		if ((type == 1 && len != 12) || (type == 2 && len != 8)) {
			snprintf(key, sizeof(key), "C14:query-length:type-%u", type);
			viol("C14", key, "query type %u with length %u", type, len);
			return;
		}
		if (type == 2 && (p[2] || p[3]))
			viol("C14", "C14:reset-query-reserved-nonzero", "Reset Query reserved field is %02x%02x", p[2], p[3]);
		on_query(s, p, len);
		return;
	}
	if (type == 10) {
		if (ver != s->mv && s->mv_optional_lower && (int)ver == s->mv - 1) {
			s->mv = ver; /* a tolerated downgrade became visible */
			s->mv_optional_lower = false;
		}
		if (ver != s->mv) {
			snprintf(key, sizeof(key), "C14:report-version:%u-expected-%d", ver, s->mv);
			viol("C14", key, "Error Report carries version %u, negotiated is %d", ver, s->mv);
		}
		on_report(s, p, len);
		return;
	}
	snprintf(key, sizeof(key), "C14:client-sent-type-%u", type);
	viol("C14", key, "client sent a PDU of type %u (length %u)", type, len);
}

void sim_on_client_bytes(struct sim *s, const uint8_t *b, size_t n)
{
	struct wire *w = &s->wire;

	CNT("wire/write_chunks");
	cnt_add("wire/bytes", n);
	s->sent_hash = hbytes(s->sent_hash, b, n);
	if (getenv("LF_DEBUG")) {
		fprintf(stderr, "DBG sent t=%ld:", (long)VNOW);
		for (size_t i = 0; i < n; i++)
			fprintf(stderr, " %02x", b[i]);
		fprintf(stderr, "\n");
	}
	if (w->cut && !w->cut_reported) {
		/* the cache holds the head of a PDU whose remainder was never written: whatever follows on this connection -
		 * a second copy of that PDU included - reaches it as garbage.  The connection has to be given up. */
		w->cut_reported = true;
		viol("C14", "C14:bytes-after-a-write-failed-inside-a-pdu", "a write failed after %u bytes of a PDU had been accepted, and %zu more bytes were handed to the transport on the same connection",
		     w->len, n);
	}
	CNT(w->cut ? "c14/writes_after_a_cut_pdu" : "c14/writes_on_intact_streams");
	if (w->broken)
		return;
	if (w->len + n > sizeof(w->buf)) {
		viol("C14", "C14:unparseable-stream", "more than %zu bytes pending without a complete PDU", sizeof(w->buf));
		w->broken = true;
		return;
	}
	memcpy(w->buf + w->len, b, n);
	w->len += n;
	while (w->len >= 8) {
		uint32_t len = rd32(w->buf + 4);

		if (len < 8 || len > RTR_MAX_PDU_LEN) {
			char key[128];

			snprintf(key, sizeof(key), "C14:length-field:type-%u:%s", w->buf[1], len < 8 ? "below-header" : "above-maximum");
			viol("C14", key, "client sent a PDU (type %u) whose length field is %u (allowed 8..%u)", w->buf[1], len, RTR_MAX_PDU_LEN);
			w->broken = true;
			return;
		}
		if (w->len < len)
			break;
		on_client_pdu(s, w->buf, len);
		memmove(w->buf, w->buf + len, w->len - len);
		w->len -= len;
	}
}

void sim_wire_conn_end(struct sim *s, const char *why)
{
	struct wire *w = &s->wire;

	if (!w->broken && w->len > 0 && !w->last_send_failed) {
		char key[128];

		snprintf(key, sizeof(key), "C14:incomplete-pdu-at-%s", why);
		viol("C14", key, "connection ended with %zu bytes of an incomplete PDU although every write succeeded (type %u)", w->len,
		     w->len > 1 ? w->buf[1] : 255);
	}
	/* a defective response on an undisturbed connection must have drawn a report */
	if (s->ex.open && !s->stop_request && !s->tfault_on_conn && s->ex.ncand > 0 && !s->ex.cand[0].opt && !s->ex.first_report_checked && s->ex.resp_len &&
	    s->dlog_len >= s->ex.cand[0].off + 8) {
		char key[128];

		snprintf(key, sizeof(key), "C14:no-report-for-violation:%s", dname(s));
		viol("C14", key, "response with violation %s (expected code %d) was delivered, connection ended without any Error Report", dname(s),
		     s->ex.cand[0].code);
	}
	w->len = 0;
}

/* ------------------------------------------------------------------ model actions bound to delivered bytes */
void sim_mon_model_action(struct sim *s, struct mevent *e)
{
	TR("model event action=%d at off=%zu arg=%u arg2=%u (delivered %zu, fault_on_conn %d)", e->action, e->off, e->arg, e->arg2, s->delivered_total, s->tfault_on_conn);
	if (s->tfault_on_conn) {
		/* A transport fault hit this connection earlier: the client may have lost framing, so it is
		 * unknown whether it saw this PDU as a PDU.  The consequences become permitted, not demanded. */
		CNT("sim/model_events_uncertain_after_fault");
		switch (e->action) {
		case MA_FIRST_HDR:
			if (s->mv == 1 && e->arg == 0 && (e->arg2 & 0xff) != 10)
				s->mv_optional_lower = true;
			break;
		case MA_ERR_DELIVERED:
			if (e->arg == 2 && s->expect_kind == 1)
				s->accept_reset_too = true;
			if (e->arg == 4 && (int)e->arg2 < s->mv && e->arg2 <= 1)
				s->mv_optional_lower = true;
			break;
		case MA_CACHE_RESET_DELIVERED:
			if (s->expect_kind == 1)
				s->accept_reset_too = true;
			break;
		default:
			break;
		}
		return;
	}
	switch (e->action) {
	case MA_FIRST_HDR:
		/* C13 trigger (a): the first PDU of a connection carries a lower supported version */
		if (s->mv == 1 && e->arg == 0 && (e->arg2 & 0xff) != 10) {
			if (!(e->arg2 & 0x100)) {
				s->mv = 0;
				CNT("c13/downgrade_trigger/first-pdu-v0");
			} else {
				/* a first PDU whose length field is out of range cannot "continue the exchange": the library refuses
				 * it for its length before it looks at the version (and reports in its own version); a client that
				 * looked at the version first would be as right - lowering is tolerated, not demanded */
				s->mv_optional_lower = true;
				CNT("c13/downgrade_trigger/first-pdu-v0-with-length-out-of-range-optional");
			}
		}
		break;
	case MA_ERR_DELIVERED:
		s->errpdu_delivered_on_conn = true;
		if (e->arg == 2)
			expect_reset(s, "no-data-error");
		if (e->arg == 4 && (int)e->arg2 < s->mv && e->arg2 <= 1) {
			/* trigger (b): Unsupported-Version report with a lower supported version: reconnect at once */
			s->mv = (int)e->arg2;
			s->mv_fast_reconnect_due = true;
			s->t_fast_reconnect = VNOW;
			CNT("c13/downgrade_trigger/error-report-code-4");
		}
		break;
	case MA_CACHE_RESET_DELIVERED:
		expect_reset(s, "cache-reset");
		break;
	case MA_NOTIFY_DELIVERED:
		if (s->sock->state == RTR_ESTABLISHED) {
			s->notify_pending_poll = true;
			s->t_notify = VNOW;
		}
		break;
	default:
		break;
	}
}

void sim_mon_on_closed_by_peer(struct sim *s)
{
	/* trigger (c): connection closed by the cache without an answer before any session exists */
	if (s->ex.open && s->expect_kind == 0 && s->mv > 0 && !s->close_without_answer_seen) {
		s->close_without_answer_seen = true;
		if (!s->ever_synced && s->delivered_total == 0) {
			s->mv = s->mv - 1;
			CNT("c13/downgrade_trigger/closed-without-answer");
		} else {
			/* a session existed earlier and was dropped, or part of an answer had arrived before the
			 * cache hung up: lowering is tolerated, not demanded - unless a complete PDU of this exchange had
			 * been delivered: then the cache did answer, and hanging up later is no reason to go down */
			size_t got = s->delivered_total >= s->ex.resp_off ? s->delivered_total - s->ex.resp_off : 0;
			bool answered = false;

			if (got >= 8 && s->ex.resp_off + 8 <= s->dlog_len) {
				const uint8_t *h = s->dlog + s->ex.resp_off;
				uint32_t flen = rd32(h + 4);

				answered = h[1] != 0 && flen >= 8 && got >= flen;
			}
			if (!answered) {
				s->mv_optional_lower = true;
				CNT("c13/downgrade_trigger/closed-without-answer-optional");
			} else {
				CNT("c13/closed_after_a_complete_pdu_no_downgrade_allowed");
			}
		}
	}
}

/* ------------------------------------------------------------------ open(): expiry rule, fast reconnect */
void sim_mon_on_open(struct sim *s)
{
	s->close_without_answer_seen = false;
	c17_range_invariant(s, "at-open");
	if (s->mv_fast_reconnect_due) {
		CNT("c13/fast_reconnect_checks");
		if (VNOW != s->t_fast_reconnect)
			viol("C13", "C13:downgrade-reconnect-delayed", "Unsupported-Version report delivered at %ld, reconnect only at %ld", (long)s->t_fast_reconnect,
			     (long)VNOW);
		s->mv_fast_reconnect_due = false;
	}
	/* C07 */
	if (s->t_valid && s->holds_data) {
		/* age of the data by the reference's account: a response the client wrongly took for a success renews nothing */
		time_t age = VNOW - s->t_valid;

		CNT("c07/open_checks");
		if (age > (time_t)s->sock->expire_interval) {
			struct snap A;

			sim_snapshot(s, s->sock, &A);
			CNT("c07/open_checks_past_expiry");
			if (s->cfg.outage_until > s->cfg.outage_from)
				cntf(1, "c07/past_expiry_by/mode-%d/dur-%d", s->cfg.outage_mode, s->cfg.outage_dur_class);
			if (!bs_empty(&A.p) || !bs_empty(&A.k) || A.foreign) {
				char key[128];

				snprintf(key, sizeof(key), "C07:records-survive-expiry:last_update-%s", s->sock->last_update ? "set" : "zero");
				viol("C07", key, "connect %ld s after the last synchronisation (expire interval %u): %d prefixes and %d keys of the cache are still in the tables",
				     (long)age, s->sock->expire_interval, bs_count(&A.p), bs_count(&A.k));
			}
			s->expect_reset_after_expiry = true;
			s->holds_data = false;
			expect_reset(s, "expiry");
			sim_check_others(s, "expiry");
			cblog_check_against_tables(s, "expiry");
		} else if (age == (time_t)s->sock->expire_interval) {
			CNT("c07/open_checks_exactly_at_expiry");
		}
	}
	sim_judge_failure_if_open(s, "open", -1, 0, 0);
}

/* ------------------------------------------------------------------ recv entry: poll timing (C17) */
void sim_mon_recv_entry(struct sim *s, size_t len, time_t timeout)
{
	if (s->sock->state == RTR_ESTABLISHED && len == 8 && s->t_ok && s->in_pos == s->in_len && !s->notify_pending_poll) {
		time_t want = s->t_ok + (time_t)s->sock->refresh_interval - VNOW;

		if (want < 0)
			want = 0;
		CNT("c17/wait_timeout_checks");
		if (timeout != want)
			viol("C17", "C17:wait-timeout", "established wait: receive timeout %ld, expected max(0, t_ok + refresh - now) = %ld (refresh %u)",
			     (long)timeout, (long)want, s->sock->refresh_interval);
	}
}

/* ------------------------------------------------------------------ state callback */
void (*SIM_ON_ESTABLISHED)(struct sim *s);

void sim_state_cb(const struct rtr_socket *sock, const enum rtr_socket_state state, void *cfgp, void *grpp)
{
	struct sim *s = cfgp;

	(void)grpp;
	(void)sock;
	if (s->nstates < MAX_STATES) {
		s->states[s->nstates].t = VNOW;
		s->states[s->nstates].st = state;
		s->nstates++;
	}
	s->trace_hash = hmix(s->trace_hash, (uint64_t)state);
	cntf(1, "sim/state/%d", state);
	TR("state -> %d", state);
	if (state == RTR_ESTABLISHED) {
		s->est_since_query = true;
		judge_success(s);
		if (SIM_ON_ESTABLISHED)
			SIM_ON_ESTABLISHED(s);
	}
	s->last_state = state;
}

/* ------------------------------------------------------------------ stop / restart / end of scenario */
void sim_after_stop(struct sim *s)
{
	struct snap A;

	s->ex.open = false;
	sim_snapshot(s, s->sock, &A);
	CNT("c07/stop_checks");
	if (!bs_empty(&A.p) || !bs_empty(&A.k) || A.foreign) {
		char key[96];

		snprintf(key, sizeof(key), "C07:records-survive-stop:%s%s", bs_empty(&A.p) ? "" : "pfx", bs_empty(&A.k) ? "" : "spki");
		viol("C07", key, "after rtr_stop %d prefixes and %d router keys of the socket remain", bs_count(&A.p), bs_count(&A.k));
	}
	sim_check_others(s, "after-stop");
	cblog_check_against_tables(s, "after-stop");
	s->holds_data = false;
	s->t_ok = 0;
	s->t_valid = 0;
	s->connected = false;
}

void sim_on_restart(struct sim *s)
{
	s->c03_next.armed = false;
	expect_reset(s, "stop-start");
	s->ever_synced = false;
	s->expect_reset_after_expiry = false;
	s->mv_fast_reconnect_due = false;
	s->notify_pending_poll = false;
	s->last_state = RTR_CLOSED;
}

void sim_final_convergence_check(struct sim *s)
{
	struct snap A;
	bset cp, ck;
	struct cache_model *c = &s->cache;
	char key[160];

	sim_snapshot(s, s->sock, &A);
	if (c->nhist) {
		cp = c->hist_p[c->nhist - 1];
		ck = c->hist_k[c->nhist - 1];
	} else {
		bs_zero(&cp);
		bs_zero(&ck);
	}
	if (s->mv == 0 || c->version == 0) {
		/* version 0 has no Router Key PDU: keys learned earlier under version 1 can neither be
		 * refreshed nor withdrawn, so they are left out of the comparison */
		bs_zero(&ck);
		bs_zero(&A.k);
	}
	CNT("c08/convergence_checks");
	if (s->sock->state != RTR_ESTABLISHED || !bs_eq(&A.p, &cp) || !bs_eq(&A.k, &ck)) {
		int last_err = -1;

		for (int i = s->nstates - 1; i >= 0 && last_err < 0; i--)
			if (s->states[i].st >= RTR_ERROR_NO_DATA_AVAIL && s->states[i].st <= RTR_ERROR_TRANSPORT)
				last_err = s->states[i].st;
		snprintf(key, sizeof(key), "C08:not-converged:state-%d:last-error-%d:v%d", s->sock->state, last_err, s->mv);
		viol("C08", key, "%ld virtual seconds after the last disturbance (bound %ld): state %d, prefixes %d (cache %d, equal %d), keys %d (cache %d, equal %d), last_update %ld",
		     (long)(VNOW - s->t_last_disturbance), (long)sim_c08_bound(s), s->sock->state, bs_count(&A.p), bs_count(&cp),
		     bs_eq(&A.p, &cp), bs_count(&A.k), bs_count(&ck), bs_eq(&A.k, &ck), (long)s->sock->last_update);
	} else {
		CNT("c08/converged");
	}
}
