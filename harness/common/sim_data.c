/* sim part 1: record universe, PDU builders, snapshots, change-log replay */
#include "sim.h"

#include <arpa/inet.h>

time_t VNOW = 1000000;
int *SIM_ALLOC_PAUSE;
void (*SIM_GATE)(struct sim *s, int cancel_enabled);
__thread struct sim *CUR_SIM;

const char *const DEFECT_NAME[D_COUNT] = {
	"none",		 "benign-notify", "benign-churn",    "len-small",	 "len-big",	"len-type",	"unknown-type",
	"unexpected-type", "no-cache-response", "wrong-version", "eod-wrong-format", "bad-flags",	"dup-announce", "withdraw-unknown",
	"session-cr",	 "session-eod",	  "session-both",    "error-report-mid", "errpdu-malformed", "truncate-silent", "truncate-close"};

/* ------------------------------------------------------------------ universe */
static int prec_cmp(const struct prec *a, const struct prec *b)
{
	if (a->fam != b->fam)
		return a->fam < b->fam ? -1 : 1;
	for (int i = 0; i < 4; i++)
		if (a->a[i] != b->a[i])
			return a->a[i] < b->a[i] ? -1 : 1;
	if (a->len != b->len)
		return a->len < b->len ? -1 : 1;
	if (a->maxlen != b->maxlen)
		return a->maxlen < b->maxlen ? -1 : 1;
	if (a->asn != b->asn)
		return a->asn < b->asn ? -1 : 1;
	return 0;
}

static int krec_cmp(const struct krec *a, const struct krec *b)
{
	int c;

	if (a->asn != b->asn)
		return a->asn < b->asn ? -1 : 1;
	c = memcmp(a->ski, b->ski, SKI_SIZE);
	if (c)
		return c;
	return memcmp(a->spki, b->spki, SPKI_SIZE);
}

static const struct universe *SORT_U;
static int psort_cmp(const void *x, const void *y)
{
	return prec_cmp(&SORT_U->p[*(const int *)x], &SORT_U->p[*(const int *)y]);
}
static int ksort_cmp(const void *x, const void *y)
{
	return krec_cmp(&SORT_U->k[*(const int *)x], &SORT_U->k[*(const int *)y]);
}

static void mask_prefix(struct prec *p)
{
	int bits = p->fam == 4 ? 32 : 128;
	int n = p->fam == 4 ? 1 : 4;

	(void)bits;
	for (int w = 0; w < 4; w++) {
		int lo = w * 32;

		if (w >= n) {
			p->a[w] = 0;
			continue;
		}
		if (p->len <= lo)
			p->a[w] = 0;
		else if (p->len < lo + 32)
			p->a[w] &= ~(0xffffffffu >> (p->len - lo));
	}
}

void universe_build(struct universe *u, struct rng *r, int np, int nk)
{
	static const uint32_t ASNS[] = {1, 2, 3, 65000, 4200000000u, 0};
	uint32_t trunk4[3], trunk6[3][4];

	memset(u, 0, sizeof(*u));
	if (np > MAX_P)
		np = MAX_P;
	if (nk > MAX_K)
		nk = MAX_K;
	for (int i = 0; i < 3; i++) {
		trunk4[i] = rnd32(r);
		for (int w = 0; w < 4; w++)
			trunk6[i][w] = rnd32(r);
	}
	for (int i = 0; i < N_SKI; i++)
		for (int b = 0; b < SKI_SIZE; b++)
			u->skis[i][b] = (uint8_t)(0x10 * (i + 1) + b + (rnd32(r) & 1));
	/* two IPv6 records whose address and AS fields, as they travel in an IPv6 Prefix PDU (bytes 12..31), are the image
	 * of a complete IPv4 Prefix PDU announcing 192.168.x.0/24 - one per protocol version.  A client that loses its place
	 * in the stream by 12 bytes finds a well-formed PDU there */
	for (int v = 0; v < 2 && u->np + 1 < np; v++) {
		struct prec p;

		memset(&p, 0, sizeof(p));
		p.fam = 6;
		p.a[0] = ((uint32_t)v << 24) | 0x00040000u; /* version, type 4, zero */
		p.a[1] = 20;                               /* length */
		p.a[2] = 0x01181800u;                      /* flags announce, /24-24, zero */
		p.a[3] = 0xc0a80000u | (rnd32(r) & 0xff00u);
		p.len = p.maxlen = 128;
		p.asn = 65000;
		u->p[u->np++] = p;
	}
	while (u->np < np) {
		struct prec p;
		int t = (int)rndn(r, 3);

		memset(&p, 0, sizeof(p));
		if (rndp(r, 3, 5)) {
			p.fam = 4;
			p.a[0] = trunk4[t];
			/* lengths 1..32: /0 kept out of the protocol scenarios on purpose (C01 covers it) */
			p.len = (uint8_t)(rndp(r, 1, 6) ? 32 : 8 + rndn(r, 18));
			if (rndp(r, 1, 3))
				p.a[0] ^= rnd32(r) >> (8 + rndn(r, 16)); /* diverge below some depth */
			p.maxlen = (uint8_t)(p.len + rndn(r, 33 - p.len));
		} else {
			p.fam = 6;
			memcpy(p.a, trunk6[t], 16);
			p.len = (uint8_t)(rndp(r, 1, 8) ? 128 : 16 + rndn(r, 100));
			if (rndp(r, 1, 3))
				p.a[(p.len - 1) / 32] ^= rnd32(r) >> rndn(r, 24);
			p.maxlen = (uint8_t)(p.len + rndn(r, 129 - p.len));
		}
		p.asn = rndp(r, 5, 6) ? ASNS[rndn(r, 6)] : rnd32(r);
		mask_prefix(&p);
		bool dupl = false;

		for (int i = 0; i < u->np && !dupl; i++)
			dupl = prec_cmp(&u->p[i], &p) == 0;
		if (!dupl)
			u->p[u->np++] = p;
	}
	while (u->nk < nk) {
		struct krec k;

		memset(&k, 0, sizeof(k));
		k.asn = ASNS[rndn(r, 5)];
		memcpy(k.ski, u->skis[rndn(r, N_SKI)], SKI_SIZE);
		for (int b = 0; b < SPKI_SIZE; b++)
			k.spki[b] = (uint8_t)(u->nk * 7 + b);
		k.spki[0] = (uint8_t)rndn(r, 4); /* few distinct keys per (asn,ski) */
		bool dupl = false;

		for (int i = 0; i < u->nk && !dupl; i++)
			dupl = krec_cmp(&u->k[i], &k) == 0;
		if (!dupl)
			u->k[u->nk++] = k;
	}
	for (int i = 0; i < u->np; i++)
		u->psort[i] = i;
	for (int i = 0; i < u->nk; i++)
		u->ksort[i] = i;
	SORT_U = u;
	qsort(u->psort, u->np, sizeof(int), psort_cmp);
	qsort(u->ksort, u->nk, sizeof(int), ksort_cmp);
}

int universe_find_p(const struct universe *u, const struct prec *p)
{
	int lo = 0, hi = u->np - 1;

	while (lo <= hi) {
		int mid = (lo + hi) / 2;
		int c = prec_cmp(p, &u->p[u->psort[mid]]);

		if (c == 0)
			return u->psort[mid];
		if (c < 0)
			hi = mid - 1;
		else
			lo = mid + 1;
	}
	return -1;
}

int universe_find_k(const struct universe *u, const struct krec *k)
{
	int lo = 0, hi = u->nk - 1;

	while (lo <= hi) {
		int mid = (lo + hi) / 2;
		int c = krec_cmp(k, &u->k[u->ksort[mid]]);

		if (c == 0)
			return u->ksort[mid];
		if (c < 0)
			hi = mid - 1;
		else
			lo = mid + 1;
	}
	return -1;
}

void prec_from_record(const struct pfx_record *r, struct prec *p)
{
	memset(p, 0, sizeof(*p));
	p->asn = r->asn;
	p->len = r->min_len;
	p->maxlen = r->max_len;
	if (r->prefix.ver == LRTR_IPV4) {
		p->fam = 4;
		p->a[0] = r->prefix.u.addr4.addr;
	} else {
		p->fam = 6;
		memcpy(p->a, r->prefix.u.addr6.addr, 16);
	}
}

void record_from_prec(const struct prec *p, struct pfx_record *r, const struct rtr_socket *src)
{
	memset(r, 0, sizeof(*r));
	r->asn = p->asn;
	r->min_len = p->len;
	r->max_len = p->maxlen;
	r->socket = src;
	if (p->fam == 4) {
		r->prefix.ver = LRTR_IPV4;
		r->prefix.u.addr4.addr = p->a[0];
	} else {
		r->prefix.ver = LRTR_IPV6;
		memcpy(r->prefix.u.addr6.addr, p->a, 16);
	}
}

/* ------------------------------------------------------------------ PDU builders */
static void put16(uint8_t *o, uint16_t v)
{
	o[0] = v >> 8;
	o[1] = v;
}
static void put32(uint8_t *o, uint32_t v)
{
	o[0] = v >> 24;
	o[1] = v >> 16;
	o[2] = v >> 8;
	o[3] = v;
}

static size_t hdr(uint8_t *o, int ver, int type, uint16_t f, uint32_t len)
{
	o[0] = (uint8_t)ver;
	o[1] = (uint8_t)type;
	put16(o + 2, f);
	put32(o + 4, len);
	return 8;
}

size_t pdu_cache_response(uint8_t *o, int ver, uint16_t sess)
{
	return hdr(o, ver, 3, sess, 8);
}

size_t pdu_cache_reset(uint8_t *o, int ver)
{
	return hdr(o, ver, 8, 0, 8);
}

size_t pdu_notify(uint8_t *o, int ver, uint16_t sess, uint32_t serial)
{
	hdr(o, ver, 0, sess, 12);
	put32(o + 8, serial);
	return 12;
}

size_t pdu_eod(uint8_t *o, int ver, uint16_t sess, uint32_t serial, uint32_t refresh, uint32_t retry, uint32_t expire)
{
	if (ver == 0) {
		hdr(o, ver, 7, sess, 12);
		put32(o + 8, serial);
		return 12;
	}
	hdr(o, ver, 7, sess, 24);
	put32(o + 8, serial);
	put32(o + 12, refresh);
	put32(o + 16, retry);
	put32(o + 20, expire);
	return 24;
}

size_t pdu_prefix(uint8_t *o, int ver, const struct prec *p, uint8_t flags)
{
	if (p->fam == 4) {
		hdr(o, ver, 4, 0, 20);
		o[8] = flags;
		o[9] = p->len;
		o[10] = p->maxlen;
		o[11] = 0;
		put32(o + 12, p->a[0]);
		put32(o + 16, p->asn);
		return 20;
	}
	hdr(o, ver, 6, 0, 32);
	o[8] = flags;
	o[9] = p->len;
	o[10] = p->maxlen;
	o[11] = 0;
	for (int i = 0; i < 4; i++)
		put32(o + 12 + 4 * i, p->a[i]);
	put32(o + 28, p->asn);
	return 32;
}

size_t pdu_key(uint8_t *o, int ver, const struct krec *k, uint8_t flags)
{
	hdr(o, ver, 9, 0, 8 + SKI_SIZE + 4 + SPKI_SIZE);
	o[2] = flags;
	o[3] = 0;
	memcpy(o + 8, k->ski, SKI_SIZE);
	put32(o + 8 + SKI_SIZE, k->asn);
	memcpy(o + 12 + SKI_SIZE, k->spki, SPKI_SIZE);
	return 8 + SKI_SIZE + 4 + SPKI_SIZE;
}

size_t pdu_error(uint8_t *o, int ver, uint16_t code, const uint8_t *enc, uint32_t enc_len, const char *txt)
{
	uint32_t tl = txt ? (uint32_t)strlen(txt) : 0;
	uint32_t len = 8 + 4 + enc_len + 4 + tl;

	hdr(o, ver, 10, code, len);
	put32(o + 8, enc_len);
	if (enc_len)
		memcpy(o + 12, enc, enc_len);
	put32(o + 12 + enc_len, tl);
	if (tl)
		memcpy(o + 16 + enc_len, txt, tl);
	return len;
}

/* ------------------------------------------------------------------ snapshots */
struct snap_ctx {
	struct sim *s;
	const struct rtr_socket *src;
	struct snap *out;
};

static void snap_cb(const struct pfx_record *rec, void *data)
{
	struct snap_ctx *c = data;
	struct prec p;
	int ix;

	if (rec->socket != c->src)
		return;
	prec_from_record(rec, &p);
	ix = universe_find_p(c->s->u, &p);
	if (ix < 0) {
		c->out->foreign++;
		return;
	}
	if (bs_has(&c->out->p, ix))
		c->out->dup++;
	bs_set(&c->out->p, ix);
}

void sim_snapshot(struct sim *s, const struct rtr_socket *src, struct snap *out)
{
	struct snap_ctx c = {s, src, out};

	MON_PAUSE();
	memset(out, 0, sizeof(*out));
	pfx_table_for_each_ipv4_record(s->pfxt, snap_cb, &c);
	pfx_table_for_each_ipv6_record(s->pfxt, snap_cb, &c);
	for (int i = 0; i < N_SKI; i++) {
		struct spki_record *res = NULL;
		unsigned int n = 0;

		if (spki_table_search_by_ski(s->spkit, s->u->skis[i], &res, &n) != SPKI_SUCCESS)
			continue;
		for (unsigned int j = 0; j < n; j++) {
			struct krec k;
			int ix;

			if (res[j].socket != src)
				continue;
			memset(&k, 0, sizeof(k));
			k.asn = res[j].asn;
			memcpy(k.ski, res[j].ski, SKI_SIZE);
			memcpy(k.spki, res[j].spki, SPKI_SIZE);
			ix = universe_find_k(s->u, &k);
			if (ix < 0) {
				out->foreign++;
				continue;
			}
			if (bs_has(&out->k, ix))
				out->dup++;
			bs_set(&out->k, ix);
		}
		lrtr_free(res);
	}
	MON_RESUME();
}

void sim_populate_others(struct sim *s, const struct rtr_socket *o1, const struct rtr_socket *o2)
{
	s->other[0] = o1;
	s->other[1] = o2;
	MON_PAUSE();
	for (int o = 0; o < 2; o++) {
		bs_zero(&s->other_p[o]);
		bs_zero(&s->other_k[o]);
		int cap = s->cache.announce_cap < s->u->np ? s->cache.announce_cap : s->u->np;

		for (int i = 0; i < cap; i++) {
			if (rndp(&s->rng, 1, 3 + o)) {
				struct pfx_record r;

				record_from_prec(&s->u->p[i], &r, s->other[o]);
				if (pfx_table_add(s->pfxt, &r) == PFX_SUCCESS)
					bs_set(&s->other_p[o], i);
			}
		}
		for (int i = 0; i < s->u->nk; i++) {
			if (rndp(&s->rng, 1, 4)) {
				struct spki_record r;

				memset(&r, 0, sizeof(r));
				r.asn = s->u->k[i].asn;
				memcpy(r.ski, s->u->k[i].ski, SKI_SIZE);
				memcpy(r.spki, s->u->k[i].spki, SPKI_SIZE);
				r.socket = s->other[o];
				if (spki_table_add_entry(s->spkit, &r) == SPKI_SUCCESS)
					bs_set(&s->other_k[o], i);
			}
		}
	}
	MON_RESUME();
}

void sim_check_others(struct sim *s, const char *where)
{
	for (int o = 0; o < 2; o++) {
		struct snap sn;

		if (!s->other[o])
			continue;
		sim_snapshot(s, s->other[o], &sn);
		if (!bs_eq(&sn.p, &s->other_p[o]) || !bs_eq(&sn.k, &s->other_k[o]) || sn.foreign || sn.dup) {
			char key[128];

			snprintf(key, sizeof(key), "C03:other-source-altered:%s", where);
			viol("C03", key, "records of another source changed (%s): pfx %d->%d keys %d->%d foreign=%d dup=%d", where,
			     bs_count(&s->other_p[o]), bs_count(&sn.p), bs_count(&s->other_k[o]), bs_count(&sn.k), sn.foreign,
			     sn.dup);
			snprintf(key, sizeof(key), "C07:other-source-altered:%s", where);
			viol("C07", key, "records of another source changed (%s)", where);
			/* re-base so that one defect is reported once per scenario */
			s->other_p[o] = sn.p;
			s->other_k[o] = sn.k;
		}
		CNT("sim/other_source_checks");
	}
}

/* ------------------------------------------------------------------ change-log replay (C09 / C10) */
void cblog_install(struct sim *s, struct cblog *cb)
{
	memset(cb, 0, sizeof(*cb));
	cb->enabled_p = cb->enabled_k = true;
	s->cb = cb;
}

static struct sim *CB_SIM; /* the callbacks carry no user pointer; one change log per process */

void sim_pfx_cb(struct pfx_table *t, const struct pfx_record rec, const bool added)
{
	struct sim *s = CB_SIM;
	struct cblog *cb = s ? s->cb : NULL;
	struct prec p;

	if (!cb || !cb->enabled_p || t != s->pfxt)
		return;
	cb->n_pfx_cb++;
	if (s->ex.open && !s->cb_count_paused)
		s->ex.cb_pfx++;
	if (s->cfg.stop_in_callback && rec.socket == s->sock && pthread_equal(pthread_self(), s->sock->thread_id) &&
	    ++s->own_callbacks == s->cfg.stop_in_callback && !s->woke_driver_from_callback) {
		/* Wake the driver now: it will call rtr_stop() while this thread is still applying the response (the
		 * callback runs outside the table lock).  Give it a few milliseconds of real time to get there, then carry
		 * on: a correct rtr_stop() waits for this thread before it removes the socket's records. */
		struct timespec ts = {0, 8000000};

		s->woke_driver_from_callback = true;
		s->finished = true;
		CNT("c07/stop_issued_in_the_middle_of_an_update");
		sem_post(&s->done);
		nanosleep(&ts, NULL);
	}
	prec_from_record(&rec, &p);
	int at = -1;

	for (int i = 0; i < cb->np; i++) {
		if (cb->p[i].src == rec.socket && prec_cmp(&cb->p[i].r, &p) == 0) {
			at = i;
			break;
		}
	}
	if (added) {
		if (at >= 0) {
			viol("C09", "C09:added-twice", "callback 'added' for a record the change log already holds (asn %u len %u maxlen %u fam %u)",
			     p.asn, p.len, p.maxlen, p.fam);
			return;
		}
		if (cb->np == cb->capp) {
			cb->capp = cb->capp ? cb->capp * 2 : 256;
			cb->p = realloc(cb->p, cb->capp * sizeof(*cb->p));
		}
		cb->p[cb->np].r = p;
		cb->p[cb->np].src = rec.socket;
		cb->np++;
	} else {
		if (at < 0) {
			viol("C09", "C09:removed-absent", "callback 'removed' for a record the change log does not hold (asn %u len %u maxlen %u fam %u)",
			     p.asn, p.len, p.maxlen, p.fam);
			return;
		}
		cb->p[at] = cb->p[--cb->np];
	}
}

void sim_spki_cb(struct spki_table *t, const struct spki_record rec, const bool added)
{
	struct sim *s = CB_SIM;
	struct cblog *cb = s ? s->cb : NULL;
	struct krec k;

	if (!cb || !cb->enabled_k || t != s->spkit)
		return;
	cb->n_spki_cb++;
	if (s->ex.open && !s->cb_count_paused)
		s->ex.cb_spki++;
	memset(&k, 0, sizeof(k));
	k.asn = rec.asn;
	memcpy(k.ski, rec.ski, SKI_SIZE);
	memcpy(k.spki, rec.spki, SPKI_SIZE);
	int at = -1;

	for (int i = 0; i < cb->nk; i++) {
		if (cb->k[i].src == rec.socket && krec_cmp(&cb->k[i].r, &k) == 0) {
			at = i;
			break;
		}
	}
	if (added) {
		if (at >= 0) {
			viol("C10", "C10:cb-added-twice", "spki callback 'added' for a key the change log already holds");
			return;
		}
		if (cb->nk == cb->capk) {
			cb->capk = cb->capk ? cb->capk * 2 : 64;
			cb->k = realloc(cb->k, cb->capk * sizeof(*cb->k));
		}
		cb->k[cb->nk].r = k;
		cb->k[cb->nk].src = rec.socket;
		cb->nk++;
	} else {
		if (at < 0) {
			viol("C10", "C10:cb-removed-absent", "spki callback 'removed' for a key the change log does not hold");
			return;
		}
		cb->k[at] = cb->k[--cb->nk];
	}
}

struct cbchk {
	struct sim *s;
	unsigned long seen;
	unsigned long missing;
};

static void cbchk_cb(const struct pfx_record *rec, void *data)
{
	struct cbchk *c = data;
	struct cblog *cb = c->s->cb;
	struct prec p;

	prec_from_record(rec, &p);
	c->seen++;
	for (int i = 0; i < cb->np; i++)
		if (cb->p[i].src == rec->socket && prec_cmp(&cb->p[i].r, &p) == 0)
			return;
	c->missing++;
}

/* replaying the callbacks must give exactly the table (all sources) */
void cblog_check_against_tables(struct sim *s, const char *where)
{
	struct cblog *cb = s->cb;
	char key[128];

	if (!cb)
		return;
	CB_SIM = s;
	MON_PAUSE();
	if (cb->enabled_p) {
		struct cbchk c = {s, 0, 0};

		pfx_table_for_each_ipv4_record(s->pfxt, cbchk_cb, &c);
		pfx_table_for_each_ipv6_record(s->pfxt, cbchk_cb, &c);
		CNT("c09/replay_vs_table_checks");
		if (c.missing || c.seen != (unsigned long)cb->np) {
			snprintf(key, sizeof(key), "C09:replay-mismatch:%s", where);
			viol("C09", key, "replayed change log holds %d records, table enumerates %lu, %lu of them unknown to the log (%s)",
			     cb->np, c.seen, c.missing, where);
			cb->enabled_p = false; /* one report per scenario */
		}
	}
	if (cb->enabled_k) {
		/* keys: enumerate through the SKI pool */
		unsigned long seen = 0, missing = 0;

		for (int i = 0; i < N_SKI; i++) {
			struct spki_record *res = NULL;
			unsigned int n = 0;

			if (spki_table_search_by_ski(s->spkit, s->u->skis[i], &res, &n) != SPKI_SUCCESS)
				continue;
			for (unsigned int j = 0; j < n; j++) {
				struct krec k;
				bool found = false;

				memset(&k, 0, sizeof(k));
				k.asn = res[j].asn;
				memcpy(k.ski, res[j].ski, SKI_SIZE);
				memcpy(k.spki, res[j].spki, SPKI_SIZE);
				seen++;
				for (int q = 0; q < cb->nk && !found; q++)
					found = cb->k[q].src == res[j].socket && krec_cmp(&cb->k[q].r, &k) == 0;
				if (!found)
					missing++;
			}
			lrtr_free(res);
		}
		CNT("c10/replay_vs_table_checks");
		if (missing || seen != (unsigned long)cb->nk) {
			snprintf(key, sizeof(key), "C10:cb-replay-mismatch:%s", where);
			viol("C10", key, "replayed spki change log holds %d keys, table holds %lu, %lu unknown to the log (%s)", cb->nk,
			     seen, missing, where);
			cb->enabled_k = false; /* one report per scenario */
		}
	}
	MON_RESUME();
}

void cblog_bind(struct sim *s)
{
	CB_SIM = s;
}
