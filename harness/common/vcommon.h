/* Shared by all harnesses: PRNG, per-case driver protocol, JSON-lines output.
 *
 * Process protocol (see lib/runner.py):
 *   <bin> <mode> <seed> <case_from> <case_to> <outfile> [key=value ...]
 * Before a case starts its index is written to <outfile>.prog, so that an abort
 * (assert, sanitizer, SEGV) is attributed to a concrete case by the runner.
 * Output: one JSON object per line in <outfile>:
 *   {"t":"viol","prop":..,"key":..,"case":..,"msg":..}   a violation witnessed by a monitor
 *   {"t":"cnt","k":..,"v":N}                              counters (summed over workers)
 *   {"t":"sample","v":{..}}                               an actual case, written out
 * plus <outfile>.nt: 64-bit hashes of the non-trivial cases (distinct count = union).
 */
#ifndef VCOMMON_H
#define VCOMMON_H

#include <fcntl.h>
#include <inttypes.h>
#include <stdarg.h>
#include <stdbool.h>
#include <stdint.h>
#include <pthread.h>
#include <stdio.h>
#include <stdlib.h>
#include <string.h>
#include <unistd.h>

/* ---------- PRNG: splitmix64; case i of a run is seeded with hash(seed, i) ---------- */
struct rng {
	uint64_t s;
};

static inline uint64_t sm64(uint64_t *s)
{
	uint64_t z = (*s += 0x9e3779b97f4a7c15ULL);

	z = (z ^ (z >> 30)) * 0xbf58476d1ce4e5b9ULL;
	z = (z ^ (z >> 27)) * 0x94d049bb133111ebULL;
	return z ^ (z >> 31);
}

static inline uint64_t mix64(uint64_t a, uint64_t b)
{
	uint64_t s = a * 0x9e3779b97f4a7c15ULL + b + 0x632be59bd9b4e019ULL;

	sm64(&s);
	return sm64(&s);
}

static inline void rng_seed(struct rng *r, uint64_t seed, uint64_t caseno)
{
	r->s = mix64(seed, caseno);
}

static inline uint64_t rnd64(struct rng *r)
{
	return sm64(&r->s);
}

static inline uint32_t rnd32(struct rng *r)
{
	return (uint32_t)(sm64(&r->s) >> 32);
}

/* uniform in [0,n) ; n>0 */
static inline uint32_t rndn(struct rng *r, uint32_t n)
{
	return (uint32_t)((rnd64(r) >> 11) % n);
}

/* true with probability num/den */
static inline bool rndp(struct rng *r, uint32_t num, uint32_t den)
{
	return rndn(r, den) < num;
}

/* FNV-style incremental hash for "distinct case" accounting */
static inline uint64_t hmix(uint64_t h, uint64_t v)
{
	h ^= v + 0x9e3779b97f4a7c15ULL + (h << 6) + (h >> 2);
	h *= 0xff51afd7ed558ccdULL;
	h ^= h >> 32;
	return h;
}

static inline uint64_t hbytes(uint64_t h, const void *p, size_t n)
{
	const uint8_t *b = p;

	for (size_t i = 0; i < n; i++)
		h = (h ^ b[i]) * 0x100000001b3ULL;
	return hmix(h, n);
}

/* ---------- output ---------- */
struct vout {
	FILE *f;
	int progfd;
	FILE *nt;
	long cur_case;
	unsigned int samples;
	unsigned int max_samples;
	unsigned long nviol;
	unsigned int nt_mod; /* record only hashes with h % nt_mod == 0 (1 = all) */
	bool muted; /* dry runs: monitors stay silent */
	const char *trap; /* coverage-guided fuzzing: a monitor verdict for this property ends the process like a sanitizer report would */
};

extern struct vout VO;

#define MAX_CNT 512
struct vcnt {
	const char *k;
	char *kdyn;
	uint64_t v;
};
extern struct vcnt VCNT[MAX_CNT];
extern unsigned int VCNT_N;
/* engines with several library threads count from all of them */
extern pthread_mutex_t VCNT_MX;

extern char VO_OUTFILE[4096];

static inline void vo_open(const char *outfile)
{
	char pth[4096];

	snprintf(VO_OUTFILE, sizeof(VO_OUTFILE), "%s", outfile);
	VO.f = fopen(outfile, "w");
	if (!VO.f) {
		perror(outfile);
		exit(2);
	}
	snprintf(pth, sizeof(pth), "%s.prog", outfile);
	VO.progfd = open(pth, O_WRONLY | O_CREAT | O_TRUNC, 0644);
	snprintf(pth, sizeof(pth), "%s.nt", outfile);
	VO.nt = fopen(pth, "w");
	if (!VO.max_samples)
		VO.max_samples = 3;
	if (!VO.nt_mod)
		VO.nt_mod = 1;
}

static inline void vo_case(long c)
{
	char b[32];
	int n = snprintf(b, sizeof(b), "%-20ld\n", c);

	VO.cur_case = c;
	if (VO.progfd >= 0) {
		if (pwrite(VO.progfd, b, n, 0) < 0) {
		}
	}
}

/* counters: linear lookup over a small table keyed by string */
static inline void cnt_add_locked(const char *k, uint64_t v)
{
	for (unsigned int i = 0; i < VCNT_N; i++) {
		if (VCNT[i].k == k || strcmp(VCNT[i].k, k) == 0) {
			VCNT[i].v += v;
			return;
		}
	}
	if (VCNT_N < MAX_CNT) {
		VCNT[VCNT_N].kdyn = strdup(k);
		VCNT[VCNT_N].k = VCNT[VCNT_N].kdyn;
		VCNT[VCNT_N].v = v;
		VCNT_N++;
	}
}

static inline void cnt_add(const char *k, uint64_t v)
{
	if (VO.muted)
		return;
	if (pthread_mutex_trylock(&VCNT_MX)) {
		pthread_mutex_lock(&VCNT_MX);
		cnt_add_locked("harness/counter_lock_contended", 1);
	}
	cnt_add_locked(k, v);
	pthread_mutex_unlock(&VCNT_MX);
}

static inline void cnt_max(const char *k, uint64_t v)
{
	if (VO.muted)
		return;
	pthread_mutex_lock(&VCNT_MX);
	for (unsigned int i = 0; i < VCNT_N; i++) {
		if (strcmp(VCNT[i].k, k) == 0) {
			if (v > VCNT[i].v)
				VCNT[i].v = v;
			pthread_mutex_unlock(&VCNT_MX);
			return;
		}
	}
	cnt_add_locked(k, v);
	pthread_mutex_unlock(&VCNT_MX);
}

#define CNT(k) cnt_add((k), 1)

static inline void cntf(uint64_t v, const char *fmt, ...)
{
	char b[160];
	va_list ap;

	va_start(ap, fmt);
	vsnprintf(b, sizeof(b), fmt, ap);
	va_end(ap);
	cnt_add(b, v);
}

static inline void json_str(FILE *f, const char *s)
{
	fputc('"', f);
	for (; *s; s++) {
		unsigned char c = (unsigned char)*s;

		if (c == '"' || c == '\\')
			fprintf(f, "\\%c", c);
		else if (c < 0x20 || c >= 0x7f)
			fprintf(f, "\\u%04x", c);
		else
			fputc(c, f);
	}
	fputc('"', f);
}

/* report a violation; key must be stable for "the same" defect and differ for a different one */
static inline void viol(const char *prop, const char *key, const char *fmt, ...)
{
	char b[2048];
	va_list ap;

	if (VO.muted)
		return;
	va_start(ap, fmt);
	vsnprintf(b, sizeof(b), fmt, ap);
	va_end(ap);
	VO.nviol++;
	{
		/* at most 3 witnesses per key and worker, so that a noisy key cannot hide another one */
		static uint64_t seen_h[256];
		static unsigned char seen_n[256];
		uint64_t h = hbytes(0x77, key, strlen(key));
		unsigned int slot = (unsigned int)(h % 256), probes = 0;

		while (seen_h[slot] && seen_h[slot] != h && probes++ < 256)
			slot = (slot + 1) % 256;
		if (seen_h[slot] == h) {
			if (seen_n[slot] >= 3)
				return;
			seen_n[slot]++;
		} else if (!seen_h[slot]) {
			seen_h[slot] = h;
			seen_n[slot] = 1;
		} else {
			return;
		}
	}
	fprintf(VO.f, "{\"t\":\"viol\",\"prop\":\"%s\",\"key\":", prop);
	json_str(VO.f, key);
	fprintf(VO.f, ",\"case\":%ld,\"msg\":", VO.cur_case);
	json_str(VO.f, b);
	fprintf(VO.f, "}\n");
	fflush(VO.f);
	if (VO.trap && !strcmp(VO.trap, prop)) {
		fprintf(stderr, "MONITOR-VIOLATION prop=%s key=%s msg=%s\n", prop, key, b);
		abort();
	}
}

/* a case is non-trivial (rule stated by each harness); h identifies it for distinct counting */
static inline void nontrivial(uint64_t h)
{
	if (VO.nt && !VO.muted && (h % VO.nt_mod) == 0)
		fwrite(&h, sizeof(h), 1, VO.nt);
}

/* per-property variant: hashes go to <outfile>.nt.<prop>; mod > 1 keeps only h % mod == 0 (a lower bound) */
static inline void nontrivial_for(const char *prop, uint64_t h, unsigned int mod)
{
	static struct {
		char prop[8];
		FILE *f;
	} tab[8];
	extern char VO_OUTFILE[4096];

	if (VO.muted || (mod > 1 && h % mod))
		return;
	for (int i = 0; i < 8; i++) {
		if (!tab[i].f) {
			char pth[4200];

			snprintf(tab[i].prop, sizeof(tab[i].prop), "%s", prop);
			snprintf(pth, sizeof(pth), "%s.nt.%s", VO_OUTFILE, prop);
			tab[i].f = fopen(pth, "w");
			if (!tab[i].f)
				return;
		}
		if (!strcmp(tab[i].prop, prop)) {
			fwrite(&h, sizeof(h), 1, tab[i].f);
			fflush(tab[i].f);
			return;
		}
	}
}

static inline bool want_sample(void)
{
	return VO.samples < VO.max_samples;
}

/* body must be a JSON value */
static inline void sample(const char *fmt, ...)
{
	va_list ap;

	if (VO.samples >= VO.max_samples || VO.muted)
		return;
	VO.samples++;
	fprintf(VO.f, "{\"t\":\"sample\",\"case\":%ld,\"v\":", VO.cur_case);
	va_start(ap, fmt);
	vfprintf(VO.f, fmt, ap);
	va_end(ap);
	fprintf(VO.f, "}\n");
}

static inline void vo_close(void)
{
	for (unsigned int i = 0; i < VCNT_N; i++) {
		fprintf(VO.f, "{\"t\":\"cnt\",\"k\":");
		json_str(VO.f, VCNT[i].k);
		fprintf(VO.f, ",\"v\":%" PRIu64 "}\n", VCNT[i].v);
	}
	fprintf(VO.f, "{\"t\":\"done\"}\n");
	fclose(VO.f);
	if (VO.nt)
		fclose(VO.nt);
	if (VO.progfd >= 0)
		close(VO.progfd);
}

/* a monitor has decided that the current case cannot be brought to an end (the client spins in calls that are
 * not cancellation points): keep what was observed, end the process; the runner resumes with the next case */
static inline void vo_abort_case(void)
{
	for (unsigned int i = 0; i < VCNT_N; i++) {
		fprintf(VO.f, "{\"t\":\"cnt\",\"k\":");
		json_str(VO.f, VCNT[i].k);
		fprintf(VO.f, ",\"v\":%" PRIu64 "}\n", VCNT[i].v);
	}
	fflush(VO.f);
	if (VO.nt)
		fflush(VO.nt);
	_exit(99);
}

/* key=value extra arguments */
static inline const char *argkv(int argc, char **argv, const char *key, const char *dflt)
{
	size_t kl = strlen(key);

	for (int i = 6; i < argc; i++) {
		if (strncmp(argv[i], key, kl) == 0 && argv[i][kl] == '=')
			return argv[i] + kl + 1;
	}
	return dflt;
}

static inline long argkv_l(int argc, char **argv, const char *key, long dflt)
{
	const char *v = argkv(argc, argv, key, NULL);

	return v ? strtol(v, NULL, 0) : dflt;
}

#define VCOMMON_GLOBALS      \
	struct vout VO = {.progfd = -1}; \
	struct vcnt VCNT[MAX_CNT];   \
	char VO_OUTFILE[4096];       \
	unsigned int VCNT_N;         \
	pthread_mutex_t VCNT_MX = PTHREAD_MUTEX_INITIALIZER;

/* hex helper for samples/witnesses */
static inline char *hexstr(char *dst, size_t dstlen, const void *p, size_t n)
{
	const uint8_t *b = p;
	size_t o = 0;

	for (size_t i = 0; i < n && o + 3 < dstlen; i++)
		o += snprintf(dst + o, dstlen - o, "%02x", b[i]);
	dst[o] = 0;
	return dst;
}

#endif
