/* sim part 2: virtual clock, mock transport, parking, timed cache events */
#include "sim_int.h"
#include <sys/syscall.h>
#include <unistd.h>

#include <errno.h>

#if defined(__has_feature)
#if __has_feature(memory_sanitizer)
#include <sanitizer/msan_interface.h>
#define HAVE_MSAN 1
#endif
#endif

int SIM_TRACE;

uint32_t rd32(const uint8_t *p)
{
	return ((uint32_t)p[0] << 24) | ((uint32_t)p[1] << 16) | ((uint32_t)p[2] << 8) | p[3];
}

uint16_t rd16(const uint8_t *p)
{
	return (uint16_t)((p[0] << 8) | p[1]);
}

/* the library's debug log is not under test */
void __wrap_lrtr_dbg(const char *frmt, ...);
void __wrap_lrtr_dbg(const char *frmt, ...)
{
	(void)frmt;
}

static pid_t my_tid(void)
{
	static __thread pid_t tid;

	if (!tid)
		tid = (pid_t)syscall(SYS_gettid);
	return tid;
}

/* ------------------------------------------------------------------ virtual clock */
int __wrap_lrtr_get_monotonic_time(time_t *seconds);
int __wrap_lrtr_get_monotonic_time(time_t *seconds)
{
	*seconds = VNOW;
	return 0;
}

void sim_time_advance(struct sim *s, time_t d)
{
	if (d > 0) {
		VNOW += d;
		s->idle_calls = 0;
	}
}

void sim_disturb(struct sim *s)
{
	s->t_last_disturbance = VNOW;
}

time_t sim_c08_bound(struct sim *s)
{
	/* C08: refresh + expire + a small multiple of retry; 600 s cover the library's fixed 60 s receive timeouts */
	return (time_t)s->sock->refresh_interval + s->sock->expire_interval + 10 * (time_t)s->sock->retry_interval + 600;
}

static bool phase_should_end(struct sim *s)
{
	if (s->finished)
		return true;
	if (s->cfg.stop_at_parkable && s->parkable_calls >= s->cfg.stop_at_parkable)
		return true;
	if (s->cfg.horizon && VNOW >= s->t_phase_start + s->cfg.horizon)
		return true;
	if (s->cfg.c08_mode) {
		/* scheduled cache-side events and the outage window are disturbances still to come */
		for (int i = 0; i < s->cfg.ntevent; i++)
			if (!s->cfg.tevent[i].done && s->cfg.tevent[i].kind != 2 && s->cfg.tevent[i].kind != 7)
				return false;
		if (s->cfg.outage_until > s->cfg.outage_from && VNOW - s->t_start < s->cfg.outage_until)
			return false;
	}
	if (s->cfg.c08_mode && VNOW > s->t_last_disturbance + sim_c08_bound(s)) {
		/* judge at a quiescent point: a periodic poll that is in flight may finish (two receive timeouts) */
		if (s->sock->state == RTR_ESTABLISHED || VNOW > s->t_last_disturbance + sim_c08_bound(s) + 130)
			return true;
	}
	if (s->cfg.max_queries && s->queries >= s->cfg.max_queries && s->sock->state == RTR_ESTABLISHED &&
	    s->in_pos == s->in_len)
		return true;
	return false;
}

#if defined(__SANITIZE_ADDRESS__)
#include <sanitizer/asan_interface.h>
static void unpoison_own_stack(void)
{
	pthread_attr_t a;
	void *base;
	size_t sz;

	if (pthread_getattr_np(pthread_self(), &a) != 0)
		return;
	if (pthread_attr_getstack(&a, &base, &sz) == 0)
		__asan_unpoison_memory_region(base, sz);
	pthread_attr_destroy(&a);
}
#else
static void unpoison_own_stack(void)
{
}
#endif

/* Park the FSM thread at a legal cancellation point; the driver either resumes it or stops the socket. */
static void park(struct sim *s)
{
	int old;

	s->parked = true;
	sem_post(&s->done);
	pthread_setcancelstate(PTHREAD_CANCEL_ENABLE, &old);
	while (sem_wait(&s->resume) != 0 && errno == EINTR)
		;
	if (s->stop_request) {
		/* The driver is about to call rtr_stop().  Cancellation abandons every frame between here and
		 * the thread's cleanup handlers without un-poisoning their ASan red zones, and the ASan runtime
		 * then trips over that stale poison itself.  The frames are dead from now on: un-poison. */
		unpoison_own_stack();
		sem_post(&s->ready_to_die);
		for (;;) {
			struct timespec ts = {0, 200000};

			pthread_testcancel();
			nanosleep(&ts, NULL);
		}
	}
	pthread_setcancelstate(PTHREAD_CANCEL_DISABLE, &old);
	s->parked = false;
}

void sim_prepare_stop(struct sim *s)
{
	if (!s->parked)
		return;
	s->stop_request = true;
	sem_post(&s->resume);
	while (sem_wait(&s->ready_to_die) != 0 && errno == EINTR)
		;
}

static void spin_check(struct sim *s)
{
	if (s->idle_calls > 10000 && !s->spin_reported) {
		char key[96];

		VO.muted = false; /* a spin found during a dry run is as real as any other */

		s->spin_reported = true;
		snprintf(key, sizeof(key), "C08:spin:state-%d", s->sock->state);
		viol("C08", key, "%ld transport calls without virtual time advancing or input being consumed (socket state %d)",
		     s->idle_calls, s->sock->state);
		snprintf(key, sizeof(key), "C04:spin:state-%d", s->sock->state);
		viol("C04", key, "client loops without letting time advance (socket state %d)", s->sock->state);
		s->finished = true;
		vo_abort_case(); /* the loop may never reach a cancellation point: end this process here */
	}
}

unsigned int __wrap_sleep(unsigned int seconds);
unsigned int __wrap_sleep(unsigned int seconds)
{
	struct sim *s = CUR_SIM;
	int old;

#ifdef VERIF_LIBFUZZER
	if (!s) {
		/* --wrap=sleep also redirects the fuzzing runtime's own housekeeping thread: that one really sleeps and
		 * must not touch the virtual clock */
		extern unsigned int __real_sleep(unsigned int);

		return __real_sleep(seconds);
	}
#endif
	if (!s) {
		/* a socket that is not driven by a simulator (dummy transport): behave like a short real sleep and
		 * stay a cancellation point so that rtr_stop() can end the thread */
		struct timespec ts = {0, 500000};

		pthread_testcancel();
		nanosleep(&ts, NULL);
		VNOW += seconds;
		return 0;
	}
	if (SIM_GATE) {
		pthread_setcancelstate(PTHREAD_CANCEL_DISABLE, &old);
		pthread_setcancelstate(old, NULL);
		SIM_GATE(s, old == PTHREAD_CANCEL_ENABLE);
	}
	pthread_setcancelstate(PTHREAD_CANCEL_DISABLE, &old);
	CNT("sim/sleep_calls");
	TR("sleep(%u)", seconds);
	if (old == PTHREAD_CANCEL_ENABLE) {
		s->parkable_calls++;
		if (phase_should_end(s))
			park(s);
	}
	sim_time_advance(s, seconds);
	if (seconds == 0) {
		s->idle_calls++;
		spin_check(s);
	}
	pthread_setcancelstate(old, NULL);
	return 0;
}

/* ------------------------------------------------------------------ helpers */
void sim_queue_bytes(struct sim *s, const uint8_t *b, size_t n)
{
	if (s->in_len + n > s->in_cap) {
		s->in_cap = (s->in_len + n) * 2 + 4096;
		s->in = realloc(s->in, s->in_cap);
	}
	if (n)
		memcpy(s->in + s->in_len, b, n);
	s->in_len += n;
}

void sim_model_event_at(struct sim *s, size_t conn_off, int action, uint32_t arg, uint32_t arg2)
{
	/* reuse finished slots */
	for (int i = 0; i < s->nmev; i++) {
		if (s->mev[i].done) {
			s->mev[i] = (struct mevent){conn_off, action, arg, arg2, false};
			return;
		}
	}
	if (s->nmev < MAX_MEV)
		s->mev[s->nmev++] = (struct mevent){conn_off, action, arg, arg2, false};
}

static void fire_model_events(struct sim *s)
{
	/* in stream order */
	for (;;) {
		int best = -1;

		for (int i = 0; i < s->nmev; i++) {
			if (!s->mev[i].done && s->mev[i].off <= s->delivered_total &&
			    (best < 0 || s->mev[i].off < s->mev[best].off))
				best = i;
		}
		if (best < 0)
			return;
		s->mev[best].done = true;
		sim_mon_model_action(s, &s->mev[best]);
	}
}

static size_t chunk(struct sim *s, int policy, size_t want, size_t avail)
{
	size_t n = want < avail ? want : avail;

	if (n <= 1)
		return n;
	switch (policy) {
	case CH_ONE:
		return 1;
	case CH_RANDOM:
		return 1 + rndn(&s->chunk_rng, (uint32_t)n);
	case CH_HEADER_SPLIT:
		return n > 3 ? 3 : n;
	default:
		return n;
	}
}

static int tfault_for_call(struct sim *s, enum tcall what)
{
	for (int i = 0; i < s->cfg.ntfault; i++) {
		if (s->cfg.tfault[i].call_idx == s->tcalls) {
			int k = s->cfg.tfault[i].kind;

			if (what == TC_OPEN)
				return F_ERROR;
			return k;
		}
	}
	if (s->cfg.outage_until > s->cfg.outage_from) {
		time_t rel = VNOW - s->t_start;

		if (rel >= s->cfg.outage_from && rel < s->cfg.outage_until) {
			if ((s->cfg.outage_mode == 0 && what == TC_OPEN) || (s->cfg.outage_mode == 1 && what == TC_SEND))
				return F_ERROR;
		}
	}
	if (s->cfg.p_tfault && s->queries < s->cfg.misbehave_until_query && s->random_faults_fired < 8 &&
	    rndn(&s->rng, 1000) < (uint32_t)s->cfg.p_tfault) {
		s->random_faults_fired++;
		static const int kinds[] = {F_ERROR, F_WOULDBLOCK, F_INTR, F_CLOSED};

		return what == TC_OPEN ? F_ERROR : kinds[rndn(&s->rng, 4)];
	}
	return F_NONE;
}

static void note_fault(struct sim *s, enum tcall what, int kind)
{
	sim_disturb(s);
	s->tfault_on_conn = true;
	/* a receive fault before the first header of the connection is complete: what the client will take
	 * for the "first PDU" is unknown, so a downgrade on it is permitted, not demanded */
	if (what == TC_RECV && s->mv == 1 && s->delivered_total < 8)
		s->mv_optional_lower = true;
	if (s->ex.open)
		s->ex.transport_fault = true;
	cntf(1, "sim/tfault/%s/%d", what == TC_OPEN ? "open" : what == TC_SEND ? "send" : "recv", kind);
}

/* ------------------------------------------------------------------ timed cache events */
void sim_apply_events(struct sim *s, bool allow_notify)
{
	for (int i = 0; i < s->cfg.ntevent; i++) {
		struct tevent *e = &s->cfg.tevent[i];

		if (e->done || e->at > VNOW)
			continue;
		if ((e->kind == 2 || e->kind == 7 || e->kind == 8) && !allow_notify)
			continue;
		e->done = true;
		if (e->kind == 1) {
			sim_cache_mutate(s, (int)e->param);
			sim_disturb(s);
			CNT("sim/event/data_change");
		} else if (e->kind == 3) {
			sim_cache_restart(s, e->param != 0);
			sim_disturb(s);
			CNT("sim/event/cache_restart");
		} else if (e->kind == 4) {
			s->cache.version = 0;
			s->cache.v0_mode = (int)e->param;
			sim_disturb(s);
			CNT("sim/event/cache_becomes_v0");
		} else if (e->kind == 5) {
			s->cache.no_data = false;
			sim_disturb(s);
			CNT("sim/event/cache_obtains_data");
		} else if (e->kind == 7) {
			if (s->connected && !s->peer_closed && s->in_pos == s->in_len && s->cfg.rawgen) {
				static uint8_t rawbuf[70000];
				size_t n = s->cfg.rawgen(s, rawbuf, sizeof(rawbuf), s->cfg.fuzz_seed ^ 0x1d1e, -1);

				sim_queue_bytes(s, rawbuf, n);
				s->first_pdu_pending = false;
				s->tfault_on_conn = true; /* arbitrary bytes: every later expectation on this connection is weak */
				sim_disturb(s);
				CNT("sim/event/raw_bytes_while_idle");
			}
		} else if (e->kind == 8) {
			/* a well-formed prefix PDU nobody asked for, arriving slowly: the header now, the rest `param` seconds
			 * later - the client is then inside one receive call while its refresh deadline may pass */
			if (s->connected && !s->peer_closed && !s->silent && s->in_pos == s->in_len && s->u->np > 0 && s->cfg.ntevent < MAX_TEVENT) {
				uint8_t b[40];
				size_t n = pdu_prefix(b, s->mv, &s->u->p[rndn(&s->rng, (uint32_t)s->u->np)], 1);

				sim_queue_bytes(s, b, 8);
				memcpy(s->slow_rest, b + 8, n - 8);
				s->slow_rest_len = n - 8;
				s->slow_conn = s->opens;
				s->cfg.tevent[s->cfg.ntevent++] = (struct tevent){VNOW + (time_t)e->param, 9, 0, false};
				s->first_pdu_pending = false;
				s->tfault_on_conn = true; /* an unsolicited PDU: later expectations on this connection are weak */
				sim_disturb(s);
				CNT("sim/event/unsolicited_pdu_header_sent");
			}
		} else if (e->kind == 9) {
			if (s->connected && !s->peer_closed && s->slow_conn == s->opens && s->slow_rest_len) {
				sim_queue_bytes(s, s->slow_rest, s->slow_rest_len);
				sim_disturb(s);
				CNT("sim/event/unsolicited_pdu_rest_sent");
			}
			s->slow_rest_len = 0;
		} else if (e->kind == 2) {
			if (s->connected && !s->peer_closed && !s->silent && s->in_pos == s->in_len) {
				uint8_t b[16];
				size_t n = pdu_notify(b, s->mv, s->cache.session, s->cache.serial);
				size_t off = s->delivered_total + (s->in_len - s->in_pos);

				sim_queue_bytes(s, b, n);
				sim_model_event_at(s, off + n, MA_NOTIFY_DELIVERED, 0, 0);
				if (s->first_pdu_pending) {
					sim_model_event_at(s, off + 8, MA_FIRST_HDR, b[0], b[1]);
					s->first_pdu_pending = false;
				}
				CNT("sim/event/notify_sent");
			}
		}
	}
}

static time_t next_event_time(struct sim *s)
{
	time_t best = 0;

	for (int i = 0; i < s->cfg.ntevent; i++) {
		struct tevent *e = &s->cfg.tevent[i];

		if (!e->done && (best == 0 || e->at < best))
			best = e->at;
	}
	return best;
}

/* ------------------------------------------------------------------ transport callbacks */
static int m_open(void *sk)
{
	struct sim *s = sk;
	int old, rv = TR_SUCCESS;

	CUR_SIM = s;
	s->fsm_tid = my_tid();
	if (SIM_GATE)
		SIM_GATE(s, 0);
	pthread_setcancelstate(PTHREAD_CANCEL_DISABLE, &old);
	cblog_bind(s);
	s->tcalls++;
	s->idle_calls++;
	s->opens++;
	spin_check(s);
	CNT("sim/open_calls");
	TR("open() call#%ld", s->tcalls);
	if (s->connected)
		sim_wire_conn_end(s, "reopen");
	sim_apply_events(s, false);
	sim_mon_on_open(s);
	int f = tfault_for_call(s, TC_OPEN);

	s->connected = false;
	if (f != F_NONE) {
		note_fault(s, TC_OPEN, f);
		rv = TR_ERROR;
	} else {
		s->connected = true;
		s->peer_closed = false;
		s->silent = false;
		s->in_len = s->in_pos = 0;
		s->delivered_total = 0;
		s->dlog_len = 0;
		s->first_pdu_pending = true;
		s->tfault_on_conn = false;
		s->nmev = 0;
		s->reports_on_conn = 0;
		s->report_expected_none = false;
		s->errpdu_delivered_on_conn = false;
		memset(&s->wire, 0, sizeof(s->wire));
	}
	pthread_setcancelstate(old, NULL);
	return rv;
}

static void m_close(void *sk)
{
	struct sim *s = sk;
	int old;

	pthread_setcancelstate(PTHREAD_CANCEL_DISABLE, &old);
	/* NB close() is also called by rtr_stop() from a foreign thread: the caller's CUR_SIM must stay its own */
	CNT("sim/close_calls");
	TR("close()");
	if (s->connected) {
		sim_wire_conn_end(s, "close");
		s->connected = false;
	}
	pthread_setcancelstate(old, NULL);
}

static void m_free(struct tr_socket *t)
{
	(void)t;
}

static const char *m_ident(void *sk)
{
	(void)sk;
	return "simulated-cache";
}

static int m_send(const void *sk, const void *pdu, const size_t len, const time_t timeout)
{
	struct sim *s = (struct sim *)sk;
	int old, rv;

	(void)timeout;
	CUR_SIM = s;
	s->fsm_tid = my_tid();
	if (SIM_GATE)
		SIM_GATE(s, 0);
	pthread_setcancelstate(PTHREAD_CANCEL_DISABLE, &old);
	cblog_bind(s);
	s->tcalls++;
	s->idle_calls++;
	spin_check(s);
	CNT("sim/send_calls");
	int f = tfault_for_call(s, TC_SEND);

	if (!s->connected || s->peer_closed) {
		CNT("sim/send_on_closed_connection");
		s->wire.last_send_failed = true;
		rv = TR_ERROR;
	} else if (f != F_NONE) {
		note_fault(s, TC_SEND, f);
		s->wire.last_send_failed = true;
		if (s->wire.len > 0) { /* a PDU was cut short by the transport: what follows cannot be framed */
			s->wire.broken = true;
			s->wire.cut = true;
			CNT("c14/pdus_cut_short_by_a_failed_write");
		}
		rv = f;
	} else {
		size_t n = chunk(s, s->cfg.chunk_tx, len, len);

#ifdef HAVE_MSAN
		{
			intptr_t bad = __msan_test_shadow(pdu, n);

			if (bad >= 0) {
				viol("C14", "C14:uninitialised-byte-sent", "byte %ld of a %zu-byte write is uninitialised (PDU type %u)",
				     (long)bad, len, len > 1 ? ((const uint8_t *)pdu)[1] : 255);
				__msan_unpoison(pdu, n);
			}
		}
#endif
		s->wire.last_send_failed = false;
		s->idle_calls = 0;
		sim_on_client_bytes(s, pdu, n);
		rv = (int)n;
	}
	if (SIM_TRACE) {
		char hx[200];

		TR("send(len=%zu) -> %d call#%ld bytes=%s", len, rv, s->tcalls, hexstr(hx, sizeof(hx), pdu, len > 90 ? 90 : len));
	}
	pthread_setcancelstate(old, NULL);
	return rv;
}

static int m_recv(const void *sk, void *buf, const size_t len, const time_t timeout)
{
	struct sim *s = (struct sim *)sk;
	int old, rv;

	CUR_SIM = s;
	s->fsm_tid = my_tid();
	if (SIM_GATE) {
		/* the library enables cancellation around its receive calls: the gate is a cancellation point */
		pthread_setcancelstate(PTHREAD_CANCEL_DISABLE, &old);
		pthread_setcancelstate(old, NULL);
		SIM_GATE(s, old == PTHREAD_CANCEL_ENABLE);
	}
	pthread_setcancelstate(PTHREAD_CANCEL_DISABLE, &old);
	cblog_bind(s);
	s->tcalls++;
	s->idle_calls++;
	CNT("sim/recv_calls");
	if (old == PTHREAD_CANCEL_ENABLE) {
		s->parkable_calls++;
		if (phase_should_end(s))
			park(s);
	}
	spin_check(s);
	if (s->finished && old == PTHREAD_CANCEL_ENABLE && !s->parked)
		park(s);
	sim_apply_events(s, true);
	/* the interval mode is a run-time setting (rtr_set_interval_mode is public): what counts for an End of Data is the
	 * mode configured when it is processed, so the switch may come in the middle of a response.  Made here, on the
	 * client's own thread between two of its reads, it is ordered with everything the client does. */
	if (s->cfg.mode_switch_at_byte > 0 && !s->mode_switched && s->opens == 1 && s->connected && s->sock &&
	    (long)s->delivered_total >= s->cfg.mode_switch_at_byte) {
		s->mode_switched = true;
		rtr_set_interval_mode(s->sock, (enum rtr_interval_mode)s->cfg.mode_switch_to);
		s->cfg.iv_mode = s->cfg.mode_switch_to;
		CNT(s->ex.open ? "c17/interval_mode_switched_inside_a_response" : "c17/interval_mode_switched_between_responses");
	}
	/* another socket on the same tables is stopped (or expires) while this client is inside a response: its records leave
	 * the tables now and must not be back when the response has been applied - not even when that response is a reload
	 * through shadow tables */
	if (s->cfg.other_leaves_at_byte > 0 && !s->other_left && s->other[0] && s->ex.open && s->connected &&
	    (!s->cfg.other_leaves_in_a_reload || (s->ex.qtype == 2 && s->ever_synced)) &&
	    s->delivered_total >= s->ex.resp_off + (size_t)s->cfg.other_leaves_at_byte) {
		s->other_left = true;
		s->cb_count_paused = true;
		pfx_table_src_remove(s->pfxt, s->other[0]);
		spki_table_src_remove(s->spkit, s->other[0]);
		s->cb_count_paused = false;
		bs_zero(&s->other_p[0]);
		bs_zero(&s->other_k[0]);
		CNT("c07/other_source_left_inside_a_response");
		if (s->ex.qtype == 2 && s->ever_synced)
			CNT("c07/other_source_left_inside_a_reload");
	}
	int f = tfault_for_call(s, TC_RECV);

	/* fault by stream position: the read that would deliver byte number intr_at_byte + 1 of this connection is
	 * interrupted instead (reads before it are cut so that they end exactly there) */
	if (f == F_NONE && s->cfg.intr_at_byte > 0 && !s->intr_fired && s->opens == s->cfg.intr_conn && s->connected &&
	    (long)s->delivered_total == s->cfg.intr_at_byte) {
		s->intr_fired = true;
		f = F_INTR;
		CNT("sim/tfault/interrupt_at_stream_position");
	}
	if (!s->connected) {
		CNT("sim/recv_on_closed_connection");
		rv = TR_ERROR;
		goto out;
	}
	if (s->cfg.outage_until > s->cfg.outage_from && s->cfg.outage_mode == 0) {
		time_t rel = VNOW - s->t_start;

		/* "cache unreachable": an existing connection dies at the start of the outage */
		if (rel >= s->cfg.outage_from && rel < s->cfg.outage_until && !s->peer_closed) {
			s->peer_closed = true;
			s->in_len = s->in_pos = 0;
			sim_disturb(s);
		}
	}
	sim_mon_recv_entry(s, len, timeout);
	if (f != F_NONE) {
		note_fault(s, TC_RECV, f);
		if (f == F_WOULDBLOCK && timeout > 0)
			sim_time_advance(s, timeout);
		if (f == F_CLOSED) {
			s->peer_closed = true;
			sim_mon_on_closed_by_peer(s);
		}
		rv = f;
		goto out;
	}
	for (;;) {
		if (s->in_pos < s->in_len && s->cfg.slow_query > 0 && s->queries == s->cfg.slow_query) {
			/* a cache that answers correctly but slowly: one byte every slow_gap seconds, each within any timeout
			 * longer than that - only the client's own overall deadline for a PDU ends this */
			if (!s->slow_started) {
				s->slow_started = true;
				s->tfault_on_conn = true;
				if (s->ex.open)
					s->ex.transport_fault = true;
				sim_disturb(s);
				CNT("sim/slow_answers_started");
			}
			if (timeout < (time_t)s->cfg.slow_gap) {
				if (timeout > 0)
					sim_time_advance(s, timeout);
				rv = TR_WOULDBLOCK;
				goto out;
			}
			sim_time_advance(s, (time_t)s->cfg.slow_gap);
		}
		if (s->in_pos < s->in_len) {
			size_t n = chunk(s, s->cfg.chunk_rx, len, s->in_len - s->in_pos);

			if (s->cfg.slow_query > 0 && s->queries == s->cfg.slow_query)
				n = 1;

			if (s->cfg.intr_at_byte > 0 && !s->intr_fired && s->opens == s->cfg.intr_conn &&
			    (long)s->delivered_total < s->cfg.intr_at_byte && (long)(s->delivered_total + n) > s->cfg.intr_at_byte)
				n = (size_t)(s->cfg.intr_at_byte - (long)s->delivered_total);
			memcpy(buf, s->in + s->in_pos, n);
			if (s->dlog_len + n > s->dlog_cap) {
				s->dlog_cap = (s->dlog_len + n) * 2 + 4096;
				s->dlog = realloc(s->dlog, s->dlog_cap);
			}
			memcpy(s->dlog + s->dlog_len, s->in + s->in_pos, n);
			s->dlog_len += n;
			s->in_pos += n;
			s->delivered_total += n;
			s->idle_calls = 0;
			if (s->in_pos == s->in_len)
				s->in_pos = s->in_len = 0;
			fire_model_events(s);
			rv = (int)n;
			goto out;
		}
		if (s->peer_closed) {
			sim_mon_on_closed_by_peer(s);
			rv = TR_CLOSED;
			goto out;
		}
		/* nothing to deliver: let virtual time pass up to the timeout or the next cache-side event */
		time_t tn = next_event_time(s);

		if (timeout <= 0) {
			rv = TR_WOULDBLOCK;
			goto out;
		}
		if (tn && tn <= VNOW + timeout) {
			time_t d = tn - VNOW;

			if (d > 0)
				sim_time_advance(s, d);
			size_t before = s->in_len;
			time_t left = timeout - (d > 0 ? d : 0);

			sim_apply_events(s, true);
			if (s->in_len != before)
				continue;
			/* the event produced no bytes; keep waiting with the remaining time */
			if (left <= 0) {
				rv = TR_WOULDBLOCK;
				goto out;
			}
			sim_time_advance(s, left);
			/* further events inside the window are applied lazily at the next call */
			rv = TR_WOULDBLOCK;
			goto out;
		}
		sim_time_advance(s, timeout);
		rv = TR_WOULDBLOCK;
		goto out;
	}
out:
	TR("recv(len=%zu, timeout=%ld) -> %d  state=%d call#%ld", len, (long)timeout, rv, s->sock->state, s->tcalls);
	/* time may have jumped by a whole refresh interval inside this call: re-evaluate the end of the
	 * phase while the client is still idle in its wait (a legal cancellation point) */
	if (rv == TR_WOULDBLOCK && old == PTHREAD_CANCEL_ENABLE && s->sock->state == RTR_ESTABLISHED && phase_should_end(s))
		park(s);
	pthread_setcancelstate(old, NULL);
	return rv;
}

/* ------------------------------------------------------------------ lifecycle */
void sim_init(struct sim *s, struct universe *u, const struct simcfg *cfg, uint64_t seed)
{
	memset(s, 0, sizeof(*s));
	s->u = u;
	s->cfg = *cfg;
	s->rng.s = seed;
	s->chunk_rng.s = seed ^ 0xc4a11c;
	SIM_TRACE = getenv("SIM_TRACE") != NULL;
	sem_init(&s->done, 0, 0);
	sem_init(&s->resume, 0, 0);
	sem_init(&s->ready_to_die, 0, 0);
	s->tr.socket = s;
	s->tr.open_fp = m_open;
	s->tr.close_fp = m_close;
	s->tr.free_fp = m_free;
	s->tr.send_fp = m_send;
	s->tr.recv_fp = m_recv;
	s->tr.ident_fp = m_ident;
	s->mv = 1;
	s->t_start = VNOW;
	s->t_phase_start = VNOW;
	s->t_last_disturbance = VNOW;
	s->last_state = RTR_CLOSED;
	s->cache.version = 1;
	s->cache.announce_cap = u->np;
}

#ifdef SIM_TCP_WRAPS
/* ------------------------------------------------------------------ the real TCP transport over the simulator
 * tr_tcp_init() with the new_socket hook: tcp_transport.c runs unchanged, and the four system calls it makes on the
 * connection (recv, send, setsockopt for the two timeouts, close) are redirected at link time (--wrap) to the simulated
 * cache and the virtual clock.  A blocking recv() without SO_RCVTIMEO waits "for ever": ten virtual years. */
#include <sys/socket.h>
#include <fcntl.h>

#define TCP_FOREVER ((time_t)315360000)
static struct {
	int fd;
	struct sim *s;
	time_t rcvto, sndto;
} TCPFD[8];

static int tcpfd_find(int fd)
{
	for (int i = 0; i < 8; i++)
		if (TCPFD[i].s && TCPFD[i].fd == fd)
			return i;
	return -1;
}

int sim_tcp_new_socket(void *data)
{
	struct sim *s = data;
	int fd;

	if (s->tr.open_fp(s) != TR_SUCCESS) {
		errno = ECONNREFUSED;
		return -1;
	}
	fd = open("/dev/null", O_RDWR);
	for (int i = 0; i < 8 && fd > 0; i++) {
		if (!TCPFD[i].s) {
			TCPFD[i].fd = fd;
			TCPFD[i].s = s;
			TCPFD[i].rcvto = TCPFD[i].sndto = 0; /* 0 = no timeout set: block */
			return fd;
		}
	}
	return -1;
}

ssize_t __real_recv(int fd, void *buf, size_t len, int flags);
ssize_t __real_send(int fd, const void *buf, size_t len, int flags);
int __real_setsockopt(int fd, int level, int optname, const void *optval, socklen_t optlen);
int __real_close(int fd);
ssize_t __wrap_recv(int fd, void *buf, size_t len, int flags);
ssize_t __wrap_send(int fd, const void *buf, size_t len, int flags);
int __wrap_setsockopt(int fd, int level, int optname, const void *optval, socklen_t optlen);
int __wrap_close(int fd);

static ssize_t tcp_result(int rv)
{
	if (rv > 0)
		return rv;
	switch (rv) {
	case TR_WOULDBLOCK:
		errno = EAGAIN;
		return -1;
	case TR_INTR:
		errno = EINTR;
		return -1;
	case TR_CLOSED:
		return 0;
	default:
		errno = ECONNRESET;
		return -1;
	}
}

ssize_t __wrap_recv(int fd, void *buf, size_t len, int flags)
{
	int i = tcpfd_find(fd);

	if (i < 0)
		return __real_recv(fd, buf, len, flags);
	CNT("tcp/recv_calls_through_the_real_transport");
	return tcp_result(TCPFD[i].s->tr.recv_fp(TCPFD[i].s, buf, len, (flags & MSG_DONTWAIT) ? 0 : TCPFD[i].rcvto ? TCPFD[i].rcvto : TCP_FOREVER));
}

ssize_t __wrap_send(int fd, const void *buf, size_t len, int flags)
{
	int i = tcpfd_find(fd);
	ssize_t rv;

	if (i < 0)
		return __real_send(fd, buf, len, flags);
	CNT("tcp/send_calls_through_the_real_transport");
	rv = tcp_result(TCPFD[i].s->tr.send_fp(TCPFD[i].s, buf, len, (flags & MSG_DONTWAIT) ? 0 : TCPFD[i].sndto ? TCPFD[i].sndto : TCP_FOREVER));
	if (rv == 0) { /* a peer that is gone shows as an error on send, not as 0 */
		errno = EPIPE;
		rv = -1;
	}
	return rv;
}

int __wrap_setsockopt(int fd, int level, int optname, const void *optval, socklen_t optlen)
{
	int i = tcpfd_find(fd);

	if (i < 0 || level != SOL_SOCKET || (optname != SO_RCVTIMEO && optname != SO_SNDTIMEO) || optlen < sizeof(struct timeval))
		return i < 0 ? __real_setsockopt(fd, level, optname, optval, optlen) : 0;
	if (optname == SO_RCVTIMEO)
		TCPFD[i].rcvto = ((const struct timeval *)optval)->tv_sec;
	else
		TCPFD[i].sndto = ((const struct timeval *)optval)->tv_sec;
	return 0;
}

int __wrap_close(int fd)
{
	int i = tcpfd_find(fd);

	if (i >= 0) {
		TCPFD[i].s->tr.close_fp(TCPFD[i].s);
		TCPFD[i].s = NULL;
	}
	return __real_close(fd);
}
#endif

void sim_attach(struct sim *s, struct rtr_socket *sock, struct pfx_table *pfxt, struct spki_table *spkit)
{
	s->sock = sock;
	s->pfxt = pfxt;
	s->spkit = spkit;
	cblog_bind(s);
}

void sim_begin_phase(struct sim *s)
{
	while (sem_trywait(&s->done) == 0)
		; /* left-over wake-ups of the previous phase */
	s->parked = false;
	s->t_phase_start = VNOW;
	s->finished = false;
	s->parkable_calls = 0;
	s->spin_reported = false;
	s->idle_calls = 0;
}

/* state letter of a thread of this process from /proc (R running/runnable, S sleeping, D disk wait, ...) */
static char thread_state(pid_t tid)
{
	char pth[64], buf[512], *p;
	FILE *f;
	char st = '?';

	snprintf(pth, sizeof(pth), "/proc/self/task/%d/stat", (int)tid);
	f = fopen(pth, "r");
	if (!f)
		return '?';
	if (fgets(buf, sizeof(buf), f)) {
		p = strrchr(buf, ')');
		if (p && p[1] == ' ')
			st = p[2];
	}
	fclose(f);
	return st;
}

/* The driver waits here for the FSM thread to park.  A thread that blocks for good inside the library (a lock it
 * can never get) would leave the driver waiting for ever, and no logical step would ever be taken on which to decide.
 * Deadlock monitor: the driver wakes once per second; when the FSM thread has made no transport call, has used no
 * CPU time and has been asleep (state S, never R) at 25 consecutive looks, nothing in this process can wake it any
 * more - the driver is the only other thread and it is waiting for the FSM thread - and that is reported. */
void sim_wait_parked(struct sim *s)
{
	long last_calls = -1;
	int still = 0;
	struct timespec cpu0 = {0, 0};

	for (;;) {
		struct timespec ts, cpu;
		clockid_t cid;

		clock_gettime(CLOCK_REALTIME, &ts);
		ts.tv_sec += 1;
		if (sem_timedwait(&s->done, &ts) == 0)
			return;
		if (errno == EINTR)
			continue;
		if (!s->fsm_tid || !s->sock || !s->sock->thread_id) {
			still = 0;
			continue;
		}
		memset(&cpu, 0, sizeof(cpu));
		if (pthread_getcpuclockid(s->sock->thread_id, &cid) == 0)
			clock_gettime(cid, &cpu);
		if (s->tcalls != last_calls || thread_state(s->fsm_tid) != 'S' || cpu.tv_sec != cpu0.tv_sec || cpu.tv_nsec != cpu0.tv_nsec) {
			last_calls = s->tcalls;
			cpu0 = cpu;
			still = 0;
			continue;
		}
		if (++still >= 25 && !s->spin_reported) {
			char key[96];

			s->spin_reported = true;
			VO.muted = false;
			snprintf(key, sizeof(key), "C08:blocked:state-%d", s->sock->state);
			viol("C08", key, "the client thread sleeps inside the library without a transport call, without CPU time and without anybody left to wake it (socket state %d, %ld transport calls so far)",
			     s->sock->state, s->tcalls);
			viol("C04", "C04:blocked", "client thread blocked for good inside the library (socket state %d)", s->sock->state);
			s->finished = true;
			vo_abort_case();
		}
	}
}

void sim_free(struct sim *s)
{
	free(s->in);
	free(s->dlog);
	if (s->cb) {
		free(s->cb->p);
		free(s->cb->k);
	}
	sem_destroy(&s->done);
	sem_destroy(&s->resume);
	sem_destroy(&s->ready_to_die);
}
