/* rtrsim core: virtual clock, mock transport, RFC 8210 cache model with scripted misbehaviour,
 * wire monitor, table snapshots, exchange oracle and trace monitors.
 *
 * Everything the client does to the outside world is a call into the mock transport or the
 * wrapped sleep(), executed in the library's own FSM thread; the cache, the fault scheduler and
 * all monitors run inside those callbacks, so a single-socket scenario is a deterministic
 * function of (seed, case).
 */
#ifndef SIM_H
#define SIM_H

#include "vcommon.h"

#include "rtrlib/lib/alloc_utils_private.h"
#include "rtrlib/pfx/pfx_private.h"
#include "rtrlib/rtr/packets_private.h"
#include "rtrlib/rtr/rtr_private.h"
#include "rtrlib/spki/hashtable/ht-spkitable_private.h"
#include "rtrlib/transport/transport_private.h"

#include <pthread.h>
#include <semaphore.h>
#include <time.h>

/* ------------------------------------------------------------------ bitsets over the record universe */
#define BS_WORDS 20 /* 1280 bits */
#define BS_BITS (BS_WORDS * 64)
typedef struct {
	uint64_t w[BS_WORDS];
} bset;

static inline void bs_zero(bset *b)
{
	memset(b, 0, sizeof(*b));
}
static inline bool bs_has(const bset *b, int i)
{
	return (b->w[i >> 6] >> (i & 63)) & 1;
}
static inline void bs_set(bset *b, int i)
{
	b->w[i >> 6] |= 1ULL << (i & 63);
}
static inline void bs_clr(bset *b, int i)
{
	b->w[i >> 6] &= ~(1ULL << (i & 63));
}
static inline bool bs_eq(const bset *a, const bset *b)
{
	return memcmp(a, b, sizeof(*a)) == 0;
}
static inline bool bs_empty(const bset *a)
{
	for (int i = 0; i < BS_WORDS; i++)
		if (a->w[i])
			return false;
	return true;
}
static inline int bs_count(const bset *a)
{
	int n = 0;

	for (int i = 0; i < BS_WORDS; i++)
		n += __builtin_popcountll(a->w[i]);
	return n;
}
static inline uint64_t bs_hash(const bset *a)
{
	uint64_t h = 0x1234;

	for (int i = 0; i < BS_WORDS; i++)
		if (a->w[i])
			h = hmix(h, a->w[i] + i);
	return h;
}

/* ------------------------------------------------------------------ record universe */
struct prec { /* prefix record identity */
	uint8_t fam; /* 4 or 6 */
	uint8_t len, maxlen;
	uint32_t asn;
	uint32_t a[4]; /* host order words, v4 uses a[0] */
};

struct krec { /* router key identity */
	uint32_t asn;
	uint8_t ski[SKI_SIZE];
	uint8_t spki[SPKI_SIZE];
};

#define MAX_P 1024
#define MAX_K 448
#define BASE_K 192 /* what the allocation histories and the concurrent engine use */
#define N_SKI 6
struct universe {
	int np, nk;
	struct prec p[MAX_P];
	struct krec k[MAX_K];
	uint8_t skis[N_SKI][SKI_SIZE];
	/* sorted index for lookup */
	int psort[MAX_P];
	int ksort[MAX_K];
};

/* records of one source, as indices into the universe (+ count of records outside it) */
struct snap {
	bset p, k;
	int foreign; /* records not in the universe (should never happen) */
	int dup; /* the same identity enumerated twice for one source */
};

/* ------------------------------------------------------------------ scripted misbehaviour */
enum defect {
	D_NONE = 0,
	/* benign rewrites: response stays well-formed */
	D_B_NOTIFY_INSERTED, /* a Serial Notify in the middle of the response */
	D_B_CHURN, /* announce x then withdraw x again (x not held) / withdraw then re-announce (x held) */
	/* framing */
	D_LEN_SMALL, /* length field < 8 */
	D_LEN_BIG, /* length field > RTR_MAX_PDU_LEN */
	D_LEN_TYPE, /* length inconsistent with the PDU type */
	D_UNKNOWN_TYPE,
	D_UNEXPECTED_TYPE, /* a PDU type that has no place in a response */
	D_NO_CACHE_RESPONSE, /* data PDUs without the leading Cache Response */
	D_WRONG_VERSION,
	D_EOD_WRONG_FORMAT, /* v0-sized EOD under v1 / v1-sized under v0 */
	/* content */
	D_BAD_FLAGS,
	D_DUP_ANNOUNCE,
	D_WITHDRAW_UNKNOWN,
	D_SESSION_CR,
	D_SESSION_EOD,
	D_SESSION_BOTH,
	D_ERROR_REPORT_MID, /* an Error Report PDU (param = code) instead of the rest */
	D_ERRPDU_MALFORMED, /* an Error Report with inconsistent nested lengths */
	/* stream */
	D_TRUNCATE_SILENT, /* stream stops after `pos` PDUs (+ param bytes), cache stays silent */
	D_TRUNCATE_CLOSE, /* stream stops, connection is closed by the cache */
	D_COUNT
};

extern const char *const DEFECT_NAME[D_COUNT];

/* what a cache does instead of (or before) answering normally, per query index */
enum answer_override {
	AO_NORMAL = 0,
	AO_CACHE_RESET, /* answer any query with Cache Reset */
	AO_ERR_REPORT, /* answer with Error Report (param = code, ver = pdu version) */
	AO_SILENCE, /* do not answer at all */
	AO_CLOSE, /* close the connection without answering */
	AO_NEW_SESSION, /* the cache restarts: new session id (+ optionally new data), then answers normally */
	AO_RAW, /* answer with bytes produced by cfg.rawgen (fuzzing) */
};

struct xplan { /* plan for the answer to one query */
	uint8_t override;
	uint8_t defect;
	int16_t pos; /* PDU position the defect applies to: 0=Cache Response, 1..n data, n+1=EOD; -1 = random */
	uint32_t param;
	uint8_t ver_byte; /* for D_WRONG_VERSION / AO_ERR_REPORT */
	uint8_t churn_first; /* n > 0: first insert n benign announce/withdraw pairs, then apply `defect` (compound responses) */
};

enum fault_kind { F_NONE = 0, F_ERROR = -1, F_WOULDBLOCK = -2, F_INTR = -3, F_CLOSED = -4 };

struct tfault { /* transport fault by global transport-call index */
	long call_idx;
	int kind;
};

enum tcall { TC_OPEN, TC_SEND, TC_RECV, TC_CLOSE, TC_SLEEP };

enum chunking { CH_MAX = 0, CH_ONE = 1, CH_RANDOM = 2, CH_HEADER_SPLIT = 3 };

/* data-change events: param = number of records that flip, or one of these */
#define SIM_WIPE_PREFIXES 100001
#define SIM_WIPE_ALL 100002
#define SIM_ADD_KEYS 100003 /* half of the universe's router keys appear */

struct tevent { /* timed cache-side event */
	time_t at;
	uint8_t kind; /* 7 = raw bytes from cfg.rawgen delivered while the client idles; 1 = data change (param = how many records flip), 2 = serial notify, 3 = cache restart (new session), 4 = cache becomes version-0-only (param = v0_mode), 5 = cache obtains data, 8 = unsolicited prefix PDU whose header arrives now and whose rest arrives param seconds later (9, internal) */
	uint32_t param;
	bool done;
};

#define MAX_XPLAN 64
#define MAX_TFAULT 64
#define MAX_TEVENT 64
#define MAX_HIST 64
#define MAX_STATES 4096

struct cache_model {
	uint16_t session;
	uint32_t serial; /* serial of the newest data set */
	int version; /* 1, or 0 for a version-0-only cache */
	int v0_mode; /* how a v0-only cache treats a v1 query: 0 answer with v0 PDUs, 1 Error Report code 4 (version 0), 2 hang up */
	bool no_data; /* cache has no data yet: answers Error Report code 2 */
	uint32_t eod_refresh, eod_retry, eod_expire;
	/* history ring: hist[i] is the data set at serial hist_serial[i] */
	int nhist;
	uint32_t hist_serial[MAX_HIST];
	bset hist_p[MAX_HIST], hist_k[MAX_HIST];
	int announce_cap; /* records from the universe the cache draws from */
};

struct exchange {
	bool open; /* an exchange awaits its verdict */
	int idx;
	uint8_t qtype, qver;
	uint16_t qsess;
	uint32_t qserial;
	struct snap B; /* client's records for this cache when the query went out */
	bool B_valid;
	time_t t_query;
	/* what the cache answered */
	uint8_t override, defect;
	int defect_pos;
	bool has_response; /* Cache Response ... EOD stream was generated */
	bool resp_valid; /* well-formed, no (non-benign) defect */
	bool is_full; /* answer to a Reset Query */
	bset exp_p, exp_k; /* records after applying the response to B (valid responses only) */
	uint16_t eod_session;
	uint32_t eod_serial;
	uint32_t eod_iv[3];
	unsigned int iv_before[3]; /* socket's refresh, retry, expire when the query went out */
	int eod_ver;
	int expect_code, expect_code_alt; /* Error Report code the client must send (-1 none) */
	bool expect_no_report; /* defect is itself an Error Report: client must not answer with one */
	uint8_t offending[8];
	unsigned int offending_len;
	size_t resp_off, resp_len; /* position of the response in the connection's delivered stream */
	bool transport_fault; /* a transport fault fired while the exchange was open */
	bool client_success; /* client reported ESTABLISHED after this query */
	unsigned int cb_pfx, cb_spki; /* update callbacks observed during the exchange */
	unsigned int reports_seen;
	bool first_report_checked;
	int npdus;
	/* reference verdict on the response bytes (sim_cache.c: validate_response) */
	int ncand; /* PDUs that violate the protocol: the client's report must name one of them */
	struct {
		size_t off; /* offset in the connection's delivered stream */
		unsigned int len; /* bytes of the offending PDU available in the stream */
		int code, alt;
		bool opt; /* a report naming it is permitted, not demanded (the PDU is incomplete as sent) */
	} cand[16];
	bool answer_reset, answer_error, truncated;
	bool content_unknown; /* the response carries records outside the model universe (fuzzing): content verdicts are skipped */
	int answer_err_code, answer_err_ver;
};

/* things the model must do when the client has actually received a given byte of the connection */
enum maction { MA_FIRST_HDR = 1, MA_ERR_DELIVERED, MA_CACHE_RESET_DELIVERED, MA_NOTIFY_DELIVERED, MA_RESPONSE_END };
struct mevent {
	size_t off;
	int action;
	uint32_t arg, arg2;
	bool done;
};
#define MAX_MEV 64

struct sim;

struct simcfg {
	unsigned int refresh, expire, retry;
	int iv_mode;
	int chunk_rx, chunk_tx;
	struct xplan xplan[MAX_XPLAN]; /* by query index; beyond nxplan: AO_NORMAL/D_NONE */
	int nxplan;
	struct tfault tfault[MAX_TFAULT];
	int ntfault;
	struct tevent tevent[MAX_TEVENT];
	int ntevent;
	/* random misbehaviour knobs (applied after the explicit plans are exhausted), in 1/1000 */
	int p_defect, p_override, p_tfault;
	long misbehave_until_query; /* random misbehaviour only for queries below this index */
	/* end of phase */
	time_t horizon; /* virtual seconds after start of phase; 0 = none */
	long max_queries; /* park after this many queries were answered and the client is idle; 0 = none */
	long stop_at_parkable; /* park at the k-th parkable call (recv/cancellable sleep), wherever it is; 0 = none */
	bool c08_mode; /* end when now >= last disturbance + bound */
	bool others; /* populate two other sources */
	long stop_in_callback; /* k > 0: the driver is woken from inside the k-th prefix update callback of the socket's own records, i.e. while the FSM
				* thread is in the middle of applying a response, and calls rtr_stop() right then */
	/* fuzzing: raw answer bytes for queries with override AO_RAW, and raw bytes delivered while the client idles */
	size_t (*rawgen)(struct sim *s, uint8_t *out, size_t cap, uint64_t fuzz_seed, int where);
	long slow_query; /* > 0: the answer to this query (1-based) arrives one byte per slow_gap seconds; later answers at once */
	unsigned int slow_gap;
	long other_leaves_at_byte; /* > 0: once this many bytes of an answer have been delivered, the first of the two other sources is stopped - its
				    * records leave the shared tables while this client is in the middle of a response */
	bool other_leaves_in_a_reload; /* ... and not before this client is inside the answer to a Reset Query while it holds data */
	long mode_switch_at_byte; /* > 0: the application calls rtr_set_interval_mode(mode_switch_to) once this many bytes of the first connection have been
				   * delivered - typically between the Cache Response and the End of Data of a response */
	int mode_switch_to;
	long intr_at_byte; /* > 0: on connection intr_conn a receive call is interrupted (TR_INTR) exactly after this many delivered bytes */
	long intr_conn;
	uint64_t fuzz_seed;
	bool raw_close_after;
	/* outage window (virtual seconds relative to scenario start) for the expiry scenarios */
	time_t outage_from, outage_until;
	int outage_dur_class; /* evidence only */
	int outage_mode; /* 0 open fails, 1 send fails, 2 silence, 3 fatal error report, 4 no-data report, 5 cache reset + truncated reload, 6 cache reset + reload with duplicate, 7 takes the query and closes without a byte, 8 Cache Response then an Error Report */
};

struct wire {
	uint8_t buf[8192];
	size_t len;
	bool broken; /* framing lost on this connection */
	bool cut; /* a write failed after part of a PDU had been accepted: nothing may follow on this connection */
	bool cut_reported;
	bool last_send_failed;
	unsigned long pdus, queries, reports;
};

struct sim {
	/* identity */
	struct rng rng;
	struct rng chunk_rng; /* read / write segmentation must not perturb the scenario's other random choices */
	struct universe *u;
	struct simcfg cfg;
	struct cache_model cache;
	/* library objects */
	struct rtr_socket *sock;
	struct tr_socket tr;
	struct pfx_table *pfxt;
	struct spki_table *spkit;
	const struct rtr_socket *other[2];
	bset other_p[2], other_k[2];
	/* connection */
	bool connected, peer_closed;
	uint8_t *in; /* bytes queued for delivery on this connection */
	size_t in_len, in_pos, in_cap;
	size_t delivered_total; /* bytes handed to the client on this connection */
	uint8_t *dlog; /* everything delivered on this connection */
	size_t dlog_len, dlog_cap;
	bool silent; /* cache will not say anything more on this connection */
	bool first_pdu_pending; /* no PDU delivered yet on this connection */
	bool tfault_on_conn; /* a transport fault fired on this connection */
	struct wire wire;
	/* counters */
	long tcalls; /* transport calls so far (open/send/recv) */
	pid_t fsm_tid; /* kernel id of the thread that made the latest transport call */
	bool intr_fired;
	bool mode_switched;
	bool other_left, cb_count_paused;
	bool ever_accept_any;
	bool slow_started;
	uint8_t slow_rest[40]; /* second part of an unsolicited PDU that is delivered in two parts (event kinds 8, 9) */
	size_t slow_rest_len;
	long slow_conn;
	long parkable_calls;
	long queries; /* complete queries seen */
	long opens;
	int random_faults_fired; /* random transport faults are a finite budget, else a client that never gets a query through is disturbed forever */
	long queries_same_second; /* queries answered without virtual time advancing */
	time_t t_last_query;
	long idle_calls; /* transport calls since virtual time last advanced or input was consumed */
	time_t t_start, t_phase_start;
	time_t t_last_disturbance;
	/* exchange under judgement */
	struct exchange ex;
	/* C03: next-query check deferred until the query after a reconnect */
	struct {
		bool armed, purged, reset_legit;
		uint8_t qtype, defect, override;
		uint16_t sess;
		uint32_t serial;
	} c03_next;
	/* C05 monitor */
	int expect_kind; /* 0 = reset query, 1 = serial query */
	uint16_t expect_sess;
	uint32_t expect_serial;
	bool accept_reset_too;
	bool ever_synced;
	/* C07 monitor */
	time_t t_ok; /* virtual time of the last successful synchronisation, 0 = never */
	time_t t_valid; /* ... of the last synchronisation the reference validator accepts too (the truth C07 measures from) */
	bool holds_data;
	bool expect_reset_after_expiry;
	/* C13 monitor */
	int mv; /* version the model says is negotiated */
	bool mv_fast_reconnect_due;
	time_t t_fast_reconnect;
	bool close_without_answer_seen;
	bool mv_optional_lower; /* a downgrade the property allows but does not require */
	/* C17 monitor */
	bool notify_pending_poll;
	time_t t_notify;
	/* state trace */
	struct {
		time_t t;
		int st;
	} states[MAX_STATES];
	int nstates;
	uint64_t trace_hash;
	uint64_t sent_hash; /* running hash over every byte the client wrote */
	/* phase control */
	bool monitors_off; /* the cache still answers, the conversation monitors stay silent (mgrmon) */
	void *owner; /* harness back pointer */
	volatile bool finished; /* park at next parkable point */
	volatile bool parked;
	bool spin_reported;
	sem_t done, resume, ready_to_die;
	volatile bool stop_request;
	long own_callbacks; /* prefix update callbacks for records of this socket */
	volatile bool woke_driver_from_callback;
	struct mevent mev[MAX_MEV];
	int nmev;
	int last_state;
	bool est_since_query; /* ESTABLISHED seen since the last query */
	long reports_on_conn;
	bool report_expected_none; /* an Error Report was delivered on this connection: no report may follow */
	bool errpdu_delivered_on_conn;
	/* C09/C10 change-log replay */
	struct cblog *cb;
	/* C06: forced reloads from preset data sets */
	const bset *presets_p, *presets_k;
	int npresets, preset_next;
	bool restart_every_poll;
	void (*on_reset_answer)(struct sim *s);
};

/* update-callback replay sets (whole table, all sources) */
struct cbrec_p {
	struct prec r;
	const struct rtr_socket *src;
};
struct cbrec_k {
	struct krec r;
	const struct rtr_socket *src;
};
struct cblog {
	struct cbrec_p *p;
	int np, capp;
	struct cbrec_k *k;
	int nk, capk;
	unsigned long n_pfx_cb, n_spki_cb;
	bool enabled_p, enabled_k;
};

/* virtual clock shared by all sims of a process */
extern time_t VNOW;
extern int *SIM_ALLOC_PAUSE; /* set when a failing allocator is installed: monitors pause it around their own table lookups */
#define MON_PAUSE() do { if (SIM_ALLOC_PAUSE) (*SIM_ALLOC_PAUSE)++; } while (0)
#define MON_RESUME() do { if (SIM_ALLOC_PAUSE) (*SIM_ALLOC_PAUSE)--; } while (0)
extern __thread struct sim *CUR_SIM;
/* multi-socket harnesses (mgrmon) install a gate that serialises the FSM threads at every transport call */
extern void (*SIM_GATE)(struct sim *s, int cancel_enabled);

void universe_build(struct universe *u, struct rng *r, int np, int nk);
int universe_find_p(const struct universe *u, const struct prec *p);
int universe_find_k(const struct universe *u, const struct krec *k);
void prec_from_record(const struct pfx_record *r, struct prec *p);
void record_from_prec(const struct prec *p, struct pfx_record *r, const struct rtr_socket *src);

void sim_init(struct sim *s, struct universe *u, const struct simcfg *cfg, uint64_t seed);
int sim_tcp_new_socket(void *data); /* tr_tcp_config.new_socket hook of the TCP variant (SIM_TCP_WRAPS builds) */
extern void (*SIM_ON_ESTABLISHED)(struct sim *s); /* engine hook: the socket has just been reported ESTABLISHED */
void sim_attach(struct sim *s, struct rtr_socket *sock, struct pfx_table *pfxt, struct spki_table *spkit);
void sim_free(struct sim *s);
void sim_snapshot(struct sim *s, const struct rtr_socket *src, struct snap *out);
void sim_populate_others(struct sim *s, const struct rtr_socket *o1, const struct rtr_socket *o2);
void sim_check_others(struct sim *s, const char *where);
void sim_state_cb(const struct rtr_socket *sock, const enum rtr_socket_state state, void *cfgp, void *grpp);
void sim_begin_phase(struct sim *s);
void sim_wait_parked(struct sim *s);
void sim_prepare_stop(struct sim *s);
void sim_cache_push_dataset(struct sim *s, const bset *p, const bset *k);
void sim_cache_mutate(struct sim *s, int flips);
void sim_cache_restart(struct sim *s, bool new_data);
void sim_cache_restart_with(struct sim *s, const bset *p, const bset *k);
void sim_after_stop(struct sim *s);
void sim_on_restart(struct sim *s);
void sim_final_convergence_check(struct sim *s);
void cblog_install(struct sim *s, struct cblog *cb);
void cblog_check_against_tables(struct sim *s, const char *where);
void sim_pfx_cb(struct pfx_table *t, const struct pfx_record rec, const bool added);
void sim_spki_cb(struct spki_table *t, const struct spki_record rec, const bool added);

/* PDU builders (network byte order) */
size_t pdu_cache_response(uint8_t *o, int ver, uint16_t sess);
size_t pdu_cache_reset(uint8_t *o, int ver);
size_t pdu_notify(uint8_t *o, int ver, uint16_t sess, uint32_t serial);
size_t pdu_eod(uint8_t *o, int ver, uint16_t sess, uint32_t serial, uint32_t refresh, uint32_t retry, uint32_t expire);
size_t pdu_prefix(uint8_t *o, int ver, const struct prec *p, uint8_t flags);
size_t pdu_key(uint8_t *o, int ver, const struct krec *k, uint8_t flags);
size_t pdu_error(uint8_t *o, int ver, uint16_t code, const uint8_t *enc, uint32_t enc_len, const char *txt);

#endif
