/* tabmon engine: operation histories on pfx_table and spki_table against executable reference models.
 *   pfx        add / remove / remove-by-source histories over a nesting-rich universe; after every
 *              operation: return code, full enumeration, callback replay; query batteries derived from
 *              the table contents judged by an RFC 6811 model                            (C01 C02 C09)
 *   spki       add / remove / remove-by-source / copy+swap+diff histories over colliding AS numbers
 *              and shared SKIs, sizes crossing the hash table's resize steps             (C10)
 *   allocpfx / allocspki   the k-th allocation of a history fails, for every k           (C18)
 */
#include "allocmon.h"
#include "vcommon.h"
#include <pthread.h>

#include "rtrlib/lib/alloc_utils_private.h"
#include "rtrlib/pfx/pfx_private.h"
#include "rtrlib/pfx/trie/trie_private.h"
#include "rtrlib/rtr/rtr_private.h"
#include "rtrlib/rtr_mgr_private.h"
#include "rtrlib/spki/hashtable/ht-spkitable_private.h"

VCOMMON_GLOBALS
ALLOCMON_GLOBALS

/* ================================================================== prefix side */
struct mrec {
	uint8_t fam; /* 4 / 6 */
	uint8_t len, maxlen;
	uint8_t src;
	uint32_t asn;
	uint32_t a[4];
};

#define MAXM 20000
static struct mrec M[MAXM]; /* the model: a flat array */
static int MN;

static struct mrec CBS[MAXM]; /* replay of the update callbacks */
static int CBN;
static bool CB_ON, CB_BROKEN;
static unsigned long CB_CALLS;

static struct rtr_socket SRC[4];
static struct pfx_table *CUR_T;

static int mrec_cmp(const void *x, const void *y)
{
	return memcmp(x, y, sizeof(struct mrec));
}

static bool mrec_eq(const struct mrec *a, const struct mrec *b)
{
	return memcmp(a, b, sizeof(*a)) == 0;
}

static void to_rec(const struct mrec *m, struct pfx_record *r)
{
	memset(r, 0, sizeof(*r));
	r->asn = m->asn;
	r->min_len = m->len;
	r->max_len = m->maxlen;
	r->socket = &SRC[m->src];
	if (m->fam == 4) {
		r->prefix.ver = LRTR_IPV4;
		r->prefix.u.addr4.addr = m->a[0];
	} else {
		r->prefix.ver = LRTR_IPV6;
		memcpy(r->prefix.u.addr6.addr, m->a, 16);
	}
}

static void from_rec(const struct pfx_record *r, struct mrec *m)
{
	memset(m, 0, sizeof(*m));
	m->asn = r->asn;
	m->len = r->min_len;
	m->maxlen = r->max_len;
	m->src = 255;
	for (int i = 0; i < 4; i++)
		if (r->socket == &SRC[i])
			m->src = (uint8_t)i;
	if (r->prefix.ver == LRTR_IPV4) {
		m->fam = 4;
		m->a[0] = r->prefix.u.addr4.addr;
	} else {
		m->fam = 6;
		memcpy(m->a, r->prefix.u.addr6.addr, 16);
	}
}

static void mask_to(uint32_t a[4], int fam, int len)
{
	int words = fam == 4 ? 1 : 4;

	for (int w = 0; w < 4; w++) {
		int lo = w * 32;

		if (w >= words || len <= lo)
			a[w] = 0;
		else if (len < lo + 32)
			a[w] &= ~(0xffffffffu >> (len - lo));
	}
}

static bool covers(const struct mrec *r, int fam, const uint32_t q[4], int qlen)
{
	uint32_t t[4];

	if (r->fam != fam || r->len > qlen)
		return false;
	memcpy(t, q, 16);
	mask_to(t, fam, r->len);
	return memcmp(t, r->a, 16) == 0;
}

static void pfx_cb(struct pfx_table *t, const struct pfx_record rec, const bool added)
{
	struct mrec m;
	int at = -1;

	if (!CB_ON || t != CUR_T || CB_BROKEN)
		return;
	CB_CALLS++;
	from_rec(&rec, &m);
	for (int i = 0; i < CBN; i++)
		if (mrec_eq(&CBS[i], &m)) {
			at = i;
			break;
		}
	if (added) {
		if (at >= 0) {
			viol("C09", "C09:tab:added-twice", "callback 'added' for a record already in the replayed log (len %u maxlen %u asn %u src %u)",
			     m.len, m.maxlen, m.asn, m.src);
			return;
		}
		if (CBN < MAXM)
			CBS[CBN++] = m;
	} else {
		if (at < 0) {
			viol("C09", "C09:tab:removed-absent", "callback 'removed' for a record not in the replayed log (len %u maxlen %u asn %u src %u)",
			     m.len, m.maxlen, m.asn, m.src);
			return;
		}
		CBS[at] = CBS[--CBN];
	}
}

/* ---- enumeration vs model */
static struct mrec ENUM[MAXM];
static int ENUMN;
static void enum_cb(const struct pfx_record *r, void *d)
{
	(void)d;
	if (ENUMN < MAXM)
		from_rec(r, &ENUM[ENUMN++]);
}

static struct mrec TMP1[MAXM], TMP2[MAXM];

static bool sets_equal(const struct mrec *a, int na, const struct mrec *b, int nb)
{
	if (na != nb)
		return false;
	memcpy(TMP1, a, na * sizeof(*a));
	memcpy(TMP2, b, nb * sizeof(*b));
	qsort(TMP1, na, sizeof(*a), mrec_cmp);
	qsort(TMP2, nb, sizeof(*b), mrec_cmp);
	return memcmp(TMP1, TMP2, na * sizeof(*a)) == 0;
}

static void check_enumeration(struct pfx_table *t, const char *after)
{
	char key[128];

	ENUMN = 0;
	pfx_table_for_each_ipv4_record(t, enum_cb, NULL);
	int n4 = ENUMN;

	pfx_table_for_each_ipv6_record(t, enum_cb, NULL);
	CNT("c02/enumerations_compared");
	for (int i = 0; i < ENUMN; i++) {
		if ((i < n4) != (ENUM[i].fam == 4)) {
			viol("C02", "C02:enumeration-wrong-family", "for_each_ipv%d_record yielded a record of the other family", i < n4 ? 4 : 6);
			break;
		}
	}
	if (!sets_equal(ENUM, ENUMN, M, MN)) {
		snprintf(key, sizeof(key), "C02:enumeration-differs:after-%s", after);
		viol("C02", key, "after %s: table enumerates %d records, model holds %d (as multisets they differ)", after, ENUMN, MN);
	}
	if (CB_ON && !CB_BROKEN) {
		CNT("c09/replay_vs_table_checks");
		if (!sets_equal(CBS, CBN, ENUM, ENUMN)) {
			snprintf(key, sizeof(key), "C09:tab:replay-differs:after-%s", after);
			viol("C09", key, "after %s: replayed callbacks give %d records, table enumerates %d", after, CBN, ENUMN);
			CB_BROKEN = true;
		}
	}
}

/* ---- record generation over a nesting-rich universe */
struct puni {
	uint32_t trunk4[4];
	uint32_t trunk6[4][4];
	int ntrunk;
	uint32_t asns[6];
	bool hostbits; /* C02 only: some records carry non-zero bits behind their length (C01 is stated for host bits zero) */
};

static void puni_init(struct puni *u, struct rng *r)
{
	u->hostbits = false;
	u->ntrunk = 2 + (int)rndn(r, 3);
	for (int i = 0; i < 4; i++) {
		u->trunk4[i] = rnd32(r);
		for (int w = 0; w < 4; w++)
			u->trunk6[i][w] = rnd32(r);
	}
	/* trunks sharing long common prefixes produce deep tries */
	if (rndp(r, 1, 2)) {
		u->trunk4[1] = u->trunk4[0] ^ (1u << rndn(r, 12));
		memcpy(u->trunk6[1], u->trunk6[0], 16);
		u->trunk6[1][3] ^= 1u << rndn(r, 20);
	}
	u->asns[0] = 0;
	u->asns[1] = 1;
	u->asns[2] = 2;
	u->asns[3] = 3;
	u->asns[4] = rnd32(r);
	u->asns[5] = 0xffffffffu;
}

static void gen_rec(struct puni *u, struct rng *r, struct mrec *m)
{
	int full, t = (int)rndn(r, (uint32_t)u->ntrunk);
	uint32_t k;

	memset(m, 0, sizeof(*m));
	m->fam = rndp(r, 1, 2) ? 4 : 6;
	full = m->fam == 4 ? 32 : 128;
	if (m->fam == 4)
		m->a[0] = u->trunk4[t];
	else
		memcpy(m->a, u->trunk6[t], 16);
	k = rndn(r, 20);
	if (k == 0)
		m->len = 0;
	else if (k <= 2)
		m->len = (uint8_t)full;
	else if (k <= 4)
		m->len = (uint8_t)(full - 1 - rndn(r, 3));
	else if (k <= 6)
		m->len = (uint8_t)(1 + rndn(r, 3));
	else
		m->len = (uint8_t)rndn(r, (uint32_t)full + 1);
	/* siblings: flip one bit above the cut */
	if (m->len > 0 && rndp(r, 1, 3)) {
		int b = (int)rndn(r, m->len);

		m->a[b / 32] ^= 0x80000000u >> (b % 32);
	}
	mask_to(m->a, m->fam, m->len);
	if (u->hostbits && m->len < full && rndp(r, 1, 2)) {
		/* the same prefix with a few different tails: records that differ in the address only behind the length */
		static const uint32_t TAIL[] = {1, 2, 3, 0x80000000u, 0xffffffffu};
		uint32_t tail[4] = {0, 0, 0, 0}, keep[4] = {0xffffffffu, 0xffffffffu, 0xffffffffu, 0xffffffffu};

		tail[m->fam == 4 ? 0 : 3] = TAIL[rndn(r, 5)];
		if (m->fam == 6 && rndp(r, 1, 3))
			tail[rndn(r, 3)] = TAIL[rndn(r, 5)];
		mask_to(keep, m->fam, m->len);
		for (int w = 0; w < 4; w++)
			m->a[w] |= tail[w] & ~keep[w];
		CNT("c02/records_with_host_bits_generated");
	}
	k = rndn(r, 8);
	if (k < 3)
		m->maxlen = m->len;
	else if (k == 3)
		m->maxlen = (uint8_t)(m->len < full ? m->len + 1 : full);
	else if (k == 4)
		m->maxlen = (uint8_t)full;
	else if (k == 5)
		m->maxlen = (uint8_t)(m->len > 0 ? m->len - 1 : 0);
	else if (k == 6)
		m->maxlen = 255;
	else
		m->maxlen = (uint8_t)(m->len + rndn(r, (uint32_t)(full - m->len + 1)));
	m->asn = u->asns[rndn(r, 6)];
	if (rndp(r, 1, 6)) /* AS numbers that agree in their low bits and differ in one high bit (or the other way round) */
		m->asn ^= 1u << (rndp(r, 2, 3) ? 24 + rndn(r, 8) : rndn(r, 32));
	m->src = (uint8_t)rndn(r, 3);
}

static int model_find(const struct mrec *m)
{
	for (int i = 0; i < MN; i++)
		if (mrec_eq(&M[i], m))
			return i;
	return -1;
}

/* ---- C01: query battery */
static struct pfx_record *REASON;
static unsigned int REASON_N;

static uint64_t TRIE_SHAPE_H; /* evidence only */
static bool HOSTBITS_CASE;

static void judge_query(struct pfx_table *t, int fam, const uint32_t q[4], int qlen, uint32_t asn, int reason_mode, struct rtr_mgr_config *mgr)
{
	if (HOSTBITS_CASE)
		return; /* C01 quantifies over records with host bits zero */
	struct lrtr_ip_addr ip;
	enum pfxv_state st = 99, want;
	int rc;
	int ncov = 0, nmatch = 0;
	static struct mrec cov[MAXM];
	char key[160];

	memset(&ip, 0, sizeof(ip));
	if (fam == 4) {
		ip.ver = LRTR_IPV4;
		ip.u.addr4.addr = q[0];
	} else {
		ip.ver = LRTR_IPV6;
		memcpy(ip.u.addr6.addr, q, 16);
	}
	for (int i = 0; i < MN; i++) {
		if (covers(&M[i], fam, q, qlen)) {
			cov[ncov++] = M[i];
			if (M[i].asn == asn && asn != 0 && qlen <= M[i].maxlen)
				nmatch++;
		}
	}
	want = nmatch ? BGP_PFXV_STATE_VALID : ncov ? BGP_PFXV_STATE_INVALID : BGP_PFXV_STATE_NOT_FOUND;
	if (reason_mode == 0) {
		rc = mgr ? rtr_mgr_validate(mgr, asn, &ip, (uint8_t)qlen, &st) : pfx_table_validate(t, asn, &ip, (uint8_t)qlen, &st);
	} else {
		if (reason_mode == 1 && REASON) { /* fresh buffer */
			lrtr_free(REASON);
			REASON = NULL;
			REASON_N = 0;
		}
		rc = pfx_table_validate_r(t, &REASON, &REASON_N, asn, &ip, (uint8_t)qlen, &st);
	}
	CNT("c01/queries");
	cntf(1, "c01/verdict/%s", want == BGP_PFXV_STATE_VALID ? "valid" : want == BGP_PFXV_STATE_INVALID ? "invalid" : "not-found");
	if (rc != PFX_SUCCESS) {
		viol("C01", "C01:validate-error", "validation returned %d (fam %d qlen %d asn %u)", rc, fam, qlen, asn);
		return;
	}
	if (st != want) {
		snprintf(key, sizeof(key), "C01:wrong-state:got-%d-want-%d:v%d", st, want, fam);
		viol("C01", key, "query v%d %08x:%08x:%08x:%08x/%d asn %u: library says %d, RFC 6811 model says %d (%d covering, %d matching, table of %d)", fam,
		     q[0], q[1], q[2], q[3], qlen, asn, st, want, ncov, nmatch, MN);
		return;
	}
	if (reason_mode) {
		static struct mrec got[MAXM];
		int ng = 0;

		CNT("c01/reason_lists_checked");
		cntf(1, "c01/reason_len/%s", REASON_N == 0 ? "0" : REASON_N == 1 ? "1" : REASON_N <= 4 ? "2-4" : "5+");
		for (unsigned int i = 0; i < REASON_N && ng < MAXM; i++)
			from_rec(&REASON[i], &got[ng++]);
		if (want == BGP_PFXV_STATE_NOT_FOUND) {
			if (REASON_N != 0 || REASON != NULL) {
				viol("C01", "C01:reason-on-not-found", "NOT FOUND but %u reason records / non-NULL pointer returned", REASON_N);
				REASON = NULL; /* ownership unclear: do not free */
				REASON_N = 0;
			}
		} else if (want == BGP_PFXV_STATE_INVALID) {
			if (!sets_equal(got, ng, cov, ncov)) {
				snprintf(key, sizeof(key), "C01:invalid-reasons-differ:v%d", fam);
				viol("C01", key, "INVALID: %d reason records returned, %d records cover the route (multisets differ)", ng, ncov);
			}
		} else {
			bool has_match = false, subset = true;

			memcpy(TMP1, cov, ncov * sizeof(cov[0]));
			int left = ncov;

			for (int i = 0; i < ng; i++) {
				int f = -1;

				for (int j = 0; j < left; j++)
					if (mrec_eq(&TMP1[j], &got[i])) {
						f = j;
						break;
					}
				if (f < 0) {
					subset = false;
					break;
				}
				TMP1[f] = TMP1[--left];
				if (got[i].asn == asn && asn != 0 && qlen <= got[i].maxlen)
					has_match = true;
			}
			if (!subset || !has_match) {
				snprintf(key, sizeof(key), "C01:valid-reasons:%s:v%d", !subset ? "not-covering" : "no-matching-record", fam);
				viol("C01", key, "VALID: %d reason records, subset of covering=%d, contains a matching record=%d", ng, subset, has_match);
			}
		}
	}
	if (ncov >= 2)
		nontrivial_for("C01", hmix(hmix(hbytes(1, q, 16), (uint64_t)qlen * 131 + fam), hmix(asn, TRIE_SHAPE_H)), 16);
}

static void query_battery(struct pfx_table *t, struct rng *r, struct puni *u, struct rtr_mgr_config *mgr)
{
	int nrec = MN;
	int stride = nrec > 60 ? nrec / 60 : 1;

	for (int i = (int)rndn(r, (uint32_t)stride); i < nrec; i += stride) {
		const struct mrec *m = &M[i];
		int full = m->fam == 4 ? 32 : 128;
		int lens[6] = {m->len - 1, m->len, m->len + 1, m->maxlen, m->maxlen + 1, full};

		for (int li = 0; li < 6; li++) {
			int qlen = lens[li];
			uint32_t q[4];

			if (qlen < 0 || qlen > full)
				continue;
			for (int ext = 0; ext < 3; ext++) {
				uint32_t fill[4];

				for (int w = 0; w < 4; w++)
					fill[w] = ext == 0 ? 0 : ext == 1 ? 0xffffffffu : rnd32(r);
				/* keep the record's bits, extend below with the fill pattern */
				mask_to(fill, m->fam, full);
				uint32_t keep[4];

				memcpy(keep, fill, 16);
				mask_to(keep, m->fam, m->len);
				for (int w = 0; w < 4; w++)
					q[w] = m->a[w] | (fill[w] & ~keep[w]);
				if (qlen < m->len) /* query shorter than the record: cut it */
					mask_to(q, m->fam, qlen);
				if (!rndp(r, 1, 8)) /* most queries have zero host bits */
					mask_to(q, m->fam, qlen);
				else
					CNT("c01/queries_with_host_bits");
				uint32_t asns[3] = {m->asn, 0, 77777};

				for (int ai = 0; ai < 3; ai++)
					judge_query(t, m->fam, q, qlen, asns[ai], (int)rndn(r, 3), rndp(r, 1, 16) ? mgr : NULL);
			}
		}
	}
	/* random queries around the trunks */
	for (int i = 0; i < 12; i++) {
		struct mrec m;
		uint32_t q[4];

		gen_rec(u, r, &m);
		memcpy(q, m.a, 16);
		if (rndp(r, 1, 2))
			q[m.fam == 4 ? 0 : (int)rndn(r, 4)] ^= rnd32(r) >> rndn(r, 32);
		int full = m.fam == 4 ? 32 : 128;
		int qlen = (int)rndn(r, (uint32_t)full + 1);

		if (!rndp(r, 1, 8))
			mask_to(q, m.fam, qlen);
		judge_query(t, m.fam, q, qlen, u->asns[rndn(r, 6)], (int)rndn(r, 3), NULL);
	}
}

/* trie shape hash: evidence of how many different structures were exercised (never a verdict) */
static void shape_walk(const struct trie_node *n, int depth, uint64_t *h, int *maxd, int *two)
{
	if (!n)
		return;
	*h = hmix(*h, (uint64_t)depth * 1000 + n->len * 4 + (n->lchild ? 1 : 0) + (n->rchild ? 2 : 0));
	if (depth > *maxd)
		*maxd = depth;
	if (n->lchild && n->rchild)
		(*two)++;
	shape_walk(n->lchild, depth + 1, h, maxd, two);
	shape_walk(n->rchild, depth + 1, h, maxd, two);
}

static void note_shape(struct pfx_table *t)
{
	uint64_t h = 7;
	int maxd = 0, two = 0;

	shape_walk(t->ipv4, 0, &h, &maxd, &two);
	shape_walk(t->ipv6, 0, &h, &maxd, &two);
	TRIE_SHAPE_H = h;
	cnt_max("max:c01/max_trie_depth", (uint64_t)maxd);
	cnt_max("max:c01/max_two_child_nodes", (uint64_t)two);
}

/* one operation on table + model; returns the library's return code */
enum pop { OP_ADD, OP_ADD_DUP, OP_REMOVE, OP_REMOVE_ABSENT, OP_REMOVE_NEAR, OP_SRC_REMOVE };

static int do_pfx_op(struct pfx_table *t, struct puni *u, struct rng *r, int *op_out, struct mrec *rec_out)
{
	struct mrec m;
	struct pfx_record rec;
	uint32_t k = rndn(r, 100);
	int rc, want, ix;
	char key[128];
	int op;

	if (MN == 0 || k < 45)
		op = OP_ADD;
	else if (k < 52)
		op = OP_ADD_DUP;
	else if (k < 75)
		op = OP_REMOVE;
	else if (k < 82)
		op = OP_REMOVE_ABSENT;
	else if (k < 93)
		op = OP_REMOVE_NEAR;
	else
		op = OP_SRC_REMOVE;
	*op_out = op;
	switch (op) {
	case OP_ADD:
	case OP_REMOVE_ABSENT:
		gen_rec(u, r, &m);
		/* near-duplicates differing in exactly one field from a stored record */
		if (MN && rndp(r, 1, 3)) {
			m = M[rndn(r, (uint32_t)MN)];
			switch (rndn(r, 3)) {
			case 0:
				m.maxlen = (uint8_t)(m.maxlen + 1);
				break;
			case 1:
				m.asn ^= 1;
				break;
			default:
				m.src = (uint8_t)((m.src + 1) % 3);
				break;
			}
		}
		break;
	case OP_SRC_REMOVE:
		memset(&m, 0, sizeof(m));
		m.src = (uint8_t)rndn(r, 4); /* source 3 never holds anything */
		break;
	case OP_REMOVE_NEAR:
		m = M[rndn(r, (uint32_t)MN)];
		switch (rndn(r, 4)) {
		case 0:
			m.maxlen ^= 1;
			break;
		case 1:
			m.asn += 1;
			break;
		case 2:
			m.src = (uint8_t)((m.src + 1) % 3);
			break;
		default:
			if (m.len > 0) {
				m.len--;
				mask_to(m.a, m.fam, m.len);
			} else {
				m.len = 1;
			}
			break;
		}
		break;
	default:
		m = M[rndn(r, (uint32_t)MN)];
		break;
	}
	*rec_out = m;
	to_rec(&m, &rec);
	ix = model_find(&m);
	if (op == OP_SRC_REMOVE) {
		rc = pfx_table_src_remove(t, &SRC[m.src]);
		want = PFX_SUCCESS;
		if (rc == PFX_SUCCESS) {
			int w = 0;

			for (int i = 0; i < MN; i++)
				if (M[i].src != m.src)
					M[w++] = M[i];
			if (w != MN)
				CNT("c02/src_remove_nonempty");
			MN = w;
		}
		CNT("c02/op/src_remove");
	} else if (op == OP_ADD || op == OP_ADD_DUP) {
		rc = pfx_table_add(t, &rec);
		want = ix >= 0 ? PFX_DUPLICATE_RECORD : PFX_SUCCESS;
		if (rc == PFX_SUCCESS && ix < 0 && MN < MAXM)
			M[MN++] = m;
		CNT(ix >= 0 ? "c02/op/add_duplicate" : "c02/op/add");
	} else {
		rc = pfx_table_remove(t, &rec);
		want = ix >= 0 ? PFX_SUCCESS : PFX_RECORD_NOT_FOUND;
		if (rc == PFX_SUCCESS && ix >= 0)
			M[ix] = M[--MN];
		CNT(ix >= 0 ? "c02/op/remove" : "c02/op/remove_absent");
	}
	if (rc != want && !(AM.fail_at && rc == PFX_ERROR)) {
		snprintf(key, sizeof(key), "C02:return-code:op-%d:got-%d-want-%d", op, rc, want);
		viol("C02", key, "operation %d on record (v%d len %u maxlen %u asn %u src %u) returned %d, model says %d", op, m.fam, m.len, m.maxlen,
		     m.asn, m.src, rc, want);
	}
	return rc;
}

static const char *OPN[] = {"add", "add-dup", "remove", "remove-absent", "remove-near", "src-remove"};

static void ptwin_adds(struct rng *r);

static void run_pfx_case(struct rng *r, long c)
{
	struct pfx_table t;
	struct puni u;
	int nops = 10 + (int)rndn(r, 60);
	uint64_t hist_h = 0;
	bool inner_removed = false;
	struct rtr_mgr_config mgr;

	puni_init(&u, r);
	u.hostbits = HOSTBITS_CASE = c % 8 == 5;
	if (HOSTBITS_CASE)
		CNT("c02/cases_with_host_bit_records");
	MN = CBN = 0;
	CB_BROKEN = false;
	CB_ON = true;
	CUR_T = &t;
	pfx_table_init(&t, pfx_cb);
	memset(&mgr, 0, sizeof(mgr));
	mgr.pfx_table = &t;
	if (c % 16 == 7) {
		/* chain builder: every prefix of one address, in ascending / descending / random order */
		struct mrec base;
		int full, order = (int)rndn(r, 3);
		int idx[129];

		gen_rec(&u, r, &base);
		full = base.fam == 4 ? 32 : 128;
		if (base.fam == 4)
			base.a[0] = u.trunk4[0];
		else
			memcpy(base.a, u.trunk6[0], 16);
		for (int i = 0; i <= full; i++)
			idx[i] = order == 0 ? i : order == 1 ? full - i : i;
		if (order == 2)
			for (int i = full; i > 0; i--) {
				int j = (int)rndn(r, (uint32_t)i + 1), tmp = idx[i];

				idx[i] = idx[j];
				idx[j] = tmp;
			}
		for (int i = 0; i <= full; i++) {
			struct mrec m = base;
			struct pfx_record rec;

			m.len = (uint8_t)idx[i];
			m.maxlen = (uint8_t)(m.len + rndn(r, (uint32_t)(full - m.len + 1)));
			m.a[0] = base.fam == 4 ? u.trunk4[0] : u.trunk6[0][0];
			if (base.fam == 6)
				memcpy(m.a, u.trunk6[0], 16);
			mask_to(m.a, m.fam, m.len);
			m.src = (uint8_t)rndn(r, 3);
			to_rec(&m, &rec);
			if (model_find(&m) < 0 && pfx_table_add(&t, &rec) == PFX_SUCCESS)
				M[MN++] = m;
		}
		CNT("c01/chain_tables");
		check_enumeration(&t, "chain-build");
		note_shape(&t);
		query_battery(&t, r, &u, &mgr);
	}
	for (int i = 0; i < nops; i++) {
		int op;
		struct mrec m;
		int before = MN;

		/* was the record about to be removed stored in an inner node? (non-triviality rule for C02) */
		do_pfx_op(&t, &u, r, &op, &m);
		hist_h = hmix(hist_h, hbytes((uint64_t)op, &m, sizeof(m)));
		check_enumeration(&t, OPN[op]);
		if ((op == OP_REMOVE || op == OP_SRC_REMOVE) && MN < before && MN > 0)
			inner_removed = true;
		if (i % 5 == 4 || i == nops - 1) {
			note_shape(&t);
			query_battery(&t, r, &u, &mgr);
		}
	}
	for (int i = 0; i < MN; i++) {
		if (M[i].len == 0)
			CNT("c01/tables_with_len0_record");
		if (M[i].len == (M[i].fam == 4 ? 32 : 128))
			CNT("c01/full_length_records");
	}
	if (want_sample()) {
		sample("{\"ops\":%d,\"final_records\":%d,\"first_record\":{\"fam\":%d,\"len\":%d,\"maxlen\":%d,\"asn\":%u,\"src\":%d},\"callbacks\":%lu}", nops, MN,
		       MN ? M[0].fam : 0, MN ? M[0].len : 0, MN ? M[0].maxlen : 0, MN ? M[0].asn : 0, MN ? M[0].src : 0, CB_CALLS);
	}
	if (inner_removed)
		nontrivial_for("C02", hmix(hist_h, 0xc02), 1);
	if (CB_CALLS)
		nontrivial_for("C09", hmix(hist_h, 0xc09), 1);
	/* destruction: the log must drain to empty */
	pfx_table_free(&t);
	MN = 0;
	if (!CB_BROKEN) {
		CNT("c09/table_free_checks");
		if (CBN != 0)
			viol("C09", "C09:tab:free-leaves-log-nonempty", "after pfx_table_free the replayed log still holds %d records", CBN);
	}
	if (REASON) {
		lrtr_free(REASON);
		REASON = NULL;
		REASON_N = 0;
	}
	if (c % 16 == 9)
		ptwin_adds(r);
}

/* two threads add the identical record at the same instant (see twin_adds for the router-key table): one succeeds, the
 * other is told it is a duplicate, the table holds it once */
struct ptwin {
	pthread_t th;
	struct pfx_table *t;
	struct pfx_record rec[32];
	int rc[32];
};
static volatile int PTWIN_ARRIVED[32];
static int PTWIN_SEEN[32];

static void ptwin_count(const struct pfx_record *rec, void *data)
{
	(void)data;
	if (rec->asn >= 70000 && rec->asn < 70032)
		PTWIN_SEEN[rec->asn - 70000]++;
}

static void *ptwin_main(void *arg)
{
	struct ptwin *w = arg;

	for (int i = 0; i < 32; i++) {
		__atomic_add_fetch(&PTWIN_ARRIVED[i], 1, __ATOMIC_SEQ_CST);
		while (__atomic_load_n(&PTWIN_ARRIVED[i], __ATOMIC_SEQ_CST) < 2)
			;
		w->rc[i] = pfx_table_add(w->t, &w->rec[i]);
	}
	return NULL;
}

static void ptwin_adds(struct rng *r)
{
	struct pfx_table t;
	struct ptwin w[2];
	char key[128];

	memset(w, 0, sizeof(w));
	memset((void *)PTWIN_ARRIVED, 0, sizeof(PTWIN_ARRIVED));
	memset(PTWIN_SEEN, 0, sizeof(PTWIN_SEEN));
	pfx_table_init(&t, NULL);
	for (int i = 0; i < 32; i++) {
		struct pfx_record rec;
		bool v6 = rndp(r, 1, 3);

		memset(&rec, 0, sizeof(rec));
		rec.asn = 70000 + (uint32_t)i;
		rec.socket = &SRC[0];
		/* a few prefixes only, so that most records share a node with others */
		if (v6) {
			rec.prefix.ver = LRTR_IPV6;
			rec.prefix.u.addr6.addr[0] = 0x20010db8;
			rec.prefix.u.addr6.addr[1] = rndn(r, 3) << 16;
			rec.min_len = 48;
			rec.max_len = (uint8_t)(48 + rndn(r, 16));
		} else {
			rec.prefix.ver = LRTR_IPV4;
			rec.prefix.u.addr4.addr = 0x0a000000u | (rndn(r, 3) << 16);
			rec.min_len = 16;
			rec.max_len = (uint8_t)(16 + rndn(r, 9));
		}
		w[0].rec[i] = w[1].rec[i] = rec;
	}
	for (int k = 0; k < 2; k++) {
		w[k].t = &t;
		pthread_create(&w[k].th, NULL, ptwin_main, &w[k]);
	}
	for (int k = 0; k < 2; k++)
		pthread_join(w[k].th, NULL);
	pfx_table_for_each_ipv4_record(&t, ptwin_count, NULL);
	pfx_table_for_each_ipv6_record(&t, ptwin_count, NULL);
	for (int i = 0; i < 32; i++) {
		int ok = (w[0].rc[i] == PFX_SUCCESS) + (w[1].rc[i] == PFX_SUCCESS);
		int dup = (w[0].rc[i] == PFX_DUPLICATE_RECORD) + (w[1].rc[i] == PFX_DUPLICATE_RECORD);

		CNT("c02/identical_records_added_by_two_threads_at_once");
		if (ok != 1 || dup != 1 || PTWIN_SEEN[i] != 1) {
			snprintf(key, sizeof(key), "C02:simultaneous-identical-adds:%d-succeeded-%d-stored", ok, PTWIN_SEEN[i]);
			viol("C02", key, "two threads added the identical record at the same time: return codes %d and %d, the table enumerates it %d times", w[0].rc[i], w[1].rc[i],
			     PTWIN_SEEN[i]);
		}
	}
	pfx_table_free(&t);
}

/* large realistic table */
static void run_pfx_big_case(struct rng *r, long c, int nrec)
{
	struct pfx_table t;
	struct puni u;

	puni_init(&u, r);
	MN = CBN = 0;
	CB_ON = false;
	CUR_T = &t;
	pfx_table_init(&t, NULL);
	while (MN < nrec) {
		struct mrec m;
		struct pfx_record rec;

		gen_rec(&u, r, &m);
		if (rndp(r, 3, 4)) {
			/* realistic: random /8../24 (v4) and /19../48 (v6) under random addresses */
			m.a[0] = rnd32(r);
			m.a[1] = rnd32(r);
			m.len = (uint8_t)(m.fam == 4 ? 8 + rndn(r, 17) : 19 + rndn(r, 30));
			mask_to(m.a, m.fam, m.len);
			m.maxlen = (uint8_t)(m.len + rndn(r, 9));
			m.asn = 1 + rndn(r, 70000);
		}
		to_rec(&m, &rec);
		int rc = pfx_table_add(&t, &rec);

		if (rc == PFX_SUCCESS)
			M[MN++] = m;
		else if (rc != PFX_DUPLICATE_RECORD)
			viol("C02", "C02:big:add-failed", "pfx_table_add returned %d in a large table", rc);
	}
	check_enumeration(&t, "big-build");
	note_shape(&t);
	query_battery(&t, r, &u, NULL);
	/* remove a third, re-check */
	for (int i = 0; i < nrec / 3; i++) {
		int ix = (int)rndn(r, (uint32_t)MN);
		struct pfx_record rec;

		to_rec(&M[ix], &rec);
		if (pfx_table_remove(&t, &rec) != PFX_SUCCESS)
			viol("C02", "C02:big:remove-failed", "pfx_table_remove of a stored record failed in a large table");
		M[ix] = M[--MN];
	}
	check_enumeration(&t, "big-remove");
	query_battery(&t, r, &u, NULL);
	pfx_table_src_remove(&t, &SRC[1]);
	int w = 0;

	for (int i = 0; i < MN; i++)
		if (M[i].src != 1)
			M[w++] = M[i];
	MN = w;
	check_enumeration(&t, "big-src-remove");
	query_battery(&t, r, &u, NULL);
	CNT("c01/big_tables");
	nontrivial_for("C02", hmix((uint64_t)c, (uint64_t)nrec), 1);
	pfx_table_free(&t);
	MN = 0;
	if (REASON) {
		lrtr_free(REASON);
		REASON = NULL;
		REASON_N = 0;
	}
}

/* ================================================================== router-key side */
struct mkey {
	uint32_t asn;
	uint8_t ski[SKI_SIZE];
	uint8_t spki[SPKI_SIZE];
	uint8_t src;
};

#define MAXK 4096
static struct mkey K[MAXK];
static int KN;
static struct mkey KCB[MAXK];
static int KCBN;
static bool KCB_BROKEN;
static struct spki_table *CUR_KT;
static uint32_t COLLIDE_ASN[8]; /* AS numbers whose tommy_inthash_u32 agree in the low 10 bits */
static int WIDE_ASN; /* > 0: most keys draw their AS number from 1..WIDE_ASN so that all buckets get used */
static uint8_t SKIS[5][SKI_SIZE];

static bool mkey_eq(const struct mkey *a, const struct mkey *b)
{
	return a->asn == b->asn && a->src == b->src && !memcmp(a->ski, b->ski, SKI_SIZE) && !memcmp(a->spki, b->spki, SPKI_SIZE);
}

static int mkey_cmp(const void *x, const void *y)
{
	return memcmp(x, y, sizeof(struct mkey));
}

static void key_to_rec(const struct mkey *k, struct spki_record *r)
{
	memset(r, 0, sizeof(*r));
	r->asn = k->asn;
	memcpy(r->ski, k->ski, SKI_SIZE);
	memcpy(r->spki, k->spki, SPKI_SIZE);
	r->socket = &SRC[k->src];
}

static void key_from_rec(const struct spki_record *r, struct mkey *k)
{
	memset(k, 0, sizeof(*k));
	k->asn = r->asn;
	memcpy(k->ski, r->ski, SKI_SIZE);
	memcpy(k->spki, r->spki, SPKI_SIZE);
	k->src = 255;
	for (int i = 0; i < 4; i++)
		if (r->socket == &SRC[i])
			k->src = (uint8_t)i;
}

/* mirror of a second table (the destination of a copy): count of keys its callbacks say it holds */
static struct spki_table *D2_T;
static struct mkey D2M[MAXK];
static int D2MN;

static void d2_cb(struct spki_table *t, const struct spki_record rec, const bool added)
{
	struct mkey k;

	if (t != D2_T)
		return;
	key_from_rec(&rec, &k);
	if (added) {
		if (D2MN < MAXK)
			D2M[D2MN++] = k;
	} else {
		for (int i = 0; i < D2MN; i++)
			if (mkey_eq(&D2M[i], &k)) {
				D2M[i] = D2M[--D2MN];
				break;
			}
	}
}

static void spki_cb(struct spki_table *t, const struct spki_record rec, const bool added)
{
	struct mkey k;
	int at = -1;

	if (t != CUR_KT || KCB_BROKEN)
		return;
	key_from_rec(&rec, &k);
	for (int i = 0; i < KCBN; i++)
		if (mkey_eq(&KCB[i], &k)) {
			at = i;
			break;
		}
	CNT("c10/callbacks");
	if (added) {
		if (at >= 0) {
			viol("C10", "C10:tab:cb-added-twice", "spki callback 'added' for a key already in the replayed log");
			return;
		}
		if (KCBN < MAXK)
			KCB[KCBN++] = k;
	} else {
		if (at < 0) {
			viol("C10", "C10:tab:cb-removed-absent", "spki callback 'removed' for a key not in the replayed log");
			return;
		}
		KCB[at] = KCB[--KCBN];
	}
}

static void find_colliding_asns(void)
{
	uint32_t target = tommy_inthash_u32(64512) & 0x3ff;
	int n = 0;

	COLLIDE_ASN[n++] = 64512;
	for (uint32_t a = 1; n < 8 && a < 50000000; a++)
		if (a != 64512 && (tommy_inthash_u32(a) & 0x3ff) == target)
			COLLIDE_ASN[n++] = a;
	for (int i = 0; i < 5; i++)
		for (int b = 0; b < SKI_SIZE; b++)
			SKIS[i][b] = (uint8_t)(i * 16 + b);
}

static void gen_key(struct rng *r, struct mkey *k, int variety)
{
	memset(k, 0, sizeof(*k));
	if (WIDE_ASN && rndp(r, 7, 8))
		k->asn = 1000 + rndn(r, (uint32_t)WIDE_ASN);
	else
		k->asn = rndp(r, 3, 4) ? COLLIDE_ASN[rndn(r, 8)] : 1 + rndn(r, 5);
	memcpy(k->ski, SKIS[rndn(r, 5)], SKI_SIZE);
	uint32_t v = rndn(r, (uint32_t)variety);

	if (v % 4 == 3) {
		for (int b = 0; b < SPKI_SIZE; b++)
			k->spki[b] = (uint8_t)(v * 31 + b);
		k->spki[1] = (uint8_t)(v >> 8);
	} else {
		/* like real router keys: the 26-byte SubjectPublicKeyInfo header of a P-256 key and the 0x04 of an
		 * uncompressed point are common to all of them; two keys differ in two bytes somewhere in the point only */
		static const uint8_t HDR[27] = {0x30, 0x59, 0x30, 0x13, 0x06, 0x07, 0x2a, 0x86, 0x48, 0xce, 0x3d, 0x02, 0x01, 0x06,
						0x08, 0x2a, 0x86, 0x48, 0xce, 0x3d, 0x03, 0x01, 0x07, 0x03, 0x42, 0x00, 0x04};
		unsigned int at = 27 + (v * 7) % 62;

		memcpy(k->spki, HDR, sizeof(HDR));
		for (int b = 27; b < SPKI_SIZE; b++)
			k->spki[b] = (uint8_t)(0xA0 + b);
		k->spki[at] = (uint8_t)(v >> 8);
		k->spki[at + 1] = (uint8_t)v;
	}
	k->src = (uint8_t)rndn(r, 3);
}

static struct mkey KT1[MAXK], KT2[MAXK];

static bool keysets_equal(const struct mkey *a, int na, const struct mkey *b, int nb)
{
	if (na != nb)
		return false;
	memcpy(KT1, a, na * sizeof(*a));
	memcpy(KT2, b, nb * sizeof(*b));
	qsort(KT1, na, sizeof(*a), mkey_cmp);
	qsort(KT2, nb, sizeof(*b), mkey_cmp);
	return memcmp(KT1, KT2, na * sizeof(*a)) == 0;
}

/* lookups for every (asn, ski) present, near misses, and every SKI; also yields the full contents */
static void check_spki_lookups(struct spki_table *t, const char *after, struct rng *r, bool full)
{
	static struct mkey got[MAXK], want[MAXK], all[MAXK];
	int nall = 0;
	char key[160];
	bool light = !full && KN >= 60;

	for (int s = 0; s < 5 && !light; s++) {
		struct spki_record *res = NULL;
		unsigned int n = 0;
		int nw = 0, ng = 0;

		if (spki_table_search_by_ski(t, SKIS[s], &res, &n) != SPKI_SUCCESS) {
			viol("C10", "C10:search_by_ski-error", "spki_table_search_by_ski failed");
			continue;
		}
		for (unsigned int i = 0; i < n && ng < MAXK; i++) {
			key_from_rec(&res[i], &got[ng++]);
			if (nall < MAXK)
				all[nall++] = got[ng - 1];
		}
		lrtr_free(res);
		for (int i = 0; i < KN; i++)
			if (!memcmp(K[i].ski, SKIS[s], SKI_SIZE))
				want[nw++] = K[i];
		CNT("c10/search_by_ski_checked");
		if (!keysets_equal(got, ng, want, nw)) {
			snprintf(key, sizeof(key), "C10:search_by_ski-differs:after-%s", after);
			viol("C10", key, "after %s: search_by_ski returned %d keys, model holds %d with that SKI", after, ng, nw);
		}
	}
	if (!light && !keysets_equal(all, nall, K, KN)) {
		snprintf(key, sizeof(key), "C10:contents-differ:after-%s", after);
		viol("C10", key, "after %s: table holds %d keys (via all SKIs), model %d", after, nall, KN);
	}
	if (light && !KCB_BROKEN && KCBN != KN) {
		snprintf(key, sizeof(key), "C10:tab:cb-replay-count:after-%s", after);
		viol("C10", key, "after %s: replayed callbacks give %d keys, model holds %d", after, KCBN, KN);
		KCB_BROKEN = true;
	}
	if (!light && !KCB_BROKEN) {
		CNT("c10/replay_vs_table_checks");
		if (!keysets_equal(KCB, KCBN, all, nall)) {
			snprintf(key, sizeof(key), "C10:tab:cb-replay-differs:after-%s", after);
			viol("C10", key, "after %s: replayed callbacks give %d keys, table holds %d", after, KCBN, nall);
			KCB_BROKEN = true;
		}
	}
	/* get_all by (asn, ski): all pairs when the table is small, a sample otherwise */
	int probes = full ? 8 * 5 + 5 * 5 : 12;

	for (int p = 0; p < probes; p++) {
		uint32_t asn;
		int s;

		if (full) {
			asn = p < 40 ? COLLIDE_ASN[p / 5] : (uint32_t)(1 + (p - 40) / 5);
			s = p % 5;
		} else {
			asn = rndp(r, 3, 4) ? COLLIDE_ASN[rndn(r, 8)] : 1 + rndn(r, 6);
			s = (int)rndn(r, 5);
		}
		if (WIDE_ASN && KN && !rndp(r, 1, 5)) {
			/* a pair that is present (most probes) */
			const struct mkey *mk = &K[rndn(r, (uint32_t)KN)];

			asn = mk->asn;
			for (s = 0; s < 4 && memcmp(SKIS[s], mk->ski, SKI_SIZE); s++)
				;
		}
		struct spki_record *res = NULL;
		unsigned int n = 0;
		int nw = 0, ng = 0;

		if (spki_table_get_all(t, asn, SKIS[s], &res, &n) != SPKI_SUCCESS) {
			viol("C10", "C10:get_all-error", "spki_table_get_all failed");
			continue;
		}
		for (unsigned int i = 0; i < n && ng < MAXK; i++)
			key_from_rec(&res[i], &got[ng++]);
		lrtr_free(res);
		for (int i = 0; i < KN; i++)
			if (K[i].asn == asn && !memcmp(K[i].ski, SKIS[s], SKI_SIZE))
				want[nw++] = K[i];
		CNT("c10/get_all_checked");
		if (nw)
			CNT("c10/get_all_nonempty");
		if (!keysets_equal(got, ng, want, nw)) {
			snprintf(key, sizeof(key), "C10:get_all-differs:after-%s", after);
			viol("C10", key, "after %s: get_all(asn %u, ski#%d) returned %d keys, model holds %d", after, asn, s, ng, nw);
		}
	}
}

static int kmodel_find(const struct mkey *k)
{
	for (int i = 0; i < KN; i++)
		if (mkey_eq(&K[i], k))
			return i;
	return -1;
}

/* The table takes its own lock around every operation, so its set semantics have to hold for operations issued at the
 * same time as well: two threads add the byte-identical key at the same instant (released together from a spin
 * barrier); exactly one of them may succeed and the table must hold the key once. */
struct twin {
	pthread_t th;
	struct spki_table *t;
	struct spki_record rec[32];
	int rc[32];
	int id;
};
static volatile int TWIN_GO[32];
static volatile int TWIN_ARRIVED[32];

static void *twin_main(void *arg)
{
	struct twin *w = arg;

	for (int i = 0; i < 32; i++) {
		__atomic_add_fetch(&TWIN_ARRIVED[i], 1, __ATOMIC_SEQ_CST);
		while (__atomic_load_n(&TWIN_ARRIVED[i], __ATOMIC_SEQ_CST) < 2)
			;
		w->rc[i] = spki_table_add_entry(w->t, &w->rec[i]);
	}
	return NULL;
}

static void twin_adds(struct rng *r)
{
	struct spki_table t;
	struct twin w[2];
	char key[128];

	memset(w, 0, sizeof(w));
	memset((void *)TWIN_ARRIVED, 0, sizeof(TWIN_ARRIVED));
	spki_table_init(&t, NULL);
	for (int i = 0; i < 32; i++) {
		struct mkey m;

		gen_key(r, &m, 4000);
		m.asn = 70000 + (uint32_t)i; /* 32 different keys */
		for (int k = 0; k < 2; k++) {
			memset(&w[k].rec[i], 0, sizeof(w[k].rec[i]));
			w[k].rec[i].asn = m.asn;
			memcpy(w[k].rec[i].ski, m.ski, SKI_SIZE);
			memcpy(w[k].rec[i].spki, m.spki, SPKI_SIZE);
			w[k].rec[i].socket = &SRC[0];
		}
	}
	for (int k = 0; k < 2; k++) {
		w[k].t = &t;
		w[k].id = k;
		pthread_create(&w[k].th, NULL, twin_main, &w[k]);
	}
	for (int k = 0; k < 2; k++)
		pthread_join(w[k].th, NULL);
	for (int i = 0; i < 32; i++) {
		struct spki_record *res = NULL;
		unsigned int n = 0;
		int ok = (w[0].rc[i] == SPKI_SUCCESS) + (w[1].rc[i] == SPKI_SUCCESS);
		int dup = (w[0].rc[i] == SPKI_DUPLICATE_RECORD) + (w[1].rc[i] == SPKI_DUPLICATE_RECORD);

		CNT("c10/identical_keys_added_by_two_threads_at_once");
		spki_table_get_all(&t, w[0].rec[i].asn, w[0].rec[i].ski, &res, &n);
		if (ok != 1 || dup != 1 || n != 1) {
			snprintf(key, sizeof(key), "C10:simultaneous-identical-adds:%d-succeeded-%d-stored", ok, (int)n);
			viol("C10", key, "two threads added the identical key at the same time: return codes %d and %d, the table holds it %u times", w[0].rc[i], w[1].rc[i], n);
		}
		free(res);
	}
	spki_table_free(&t);
}

static void run_spki_case(struct rng *r, long c)
{
	struct spki_table t;
	static const int TARGETS[] = {8, 20, 40, 70, 140, 270, 530, 1100};
	int target = TARGETS[c % 8];
	int variety = target / 3 + 4;
	bool sawtooth = (c / 8) % 2 == 1;
	int saw_stage = 0;
	int nops = target * (sawtooth ? 5 : 2) + 20 + (int)rndn(r, 40);

	WIDE_ASN = (c / 16) % 2 == 1 ? 600 : 0;
	uint64_t hh = 0;
	bool grew = false, shrank = false;
	int peak = 0;

	KN = KCBN = 0;
	KCB_BROKEN = false;
	CUR_KT = &t;
	spki_table_init(&t, spki_cb);
	for (int i = 0; i < nops; i++) {
		uint32_t k = rndn(r, 100);
		struct mkey m;
		struct spki_record rec;
		int rc, want, ix;
		char key[128];
		/* phase 1 grows to the target, phase 2 shrinks below 1/8 load, phase 3 mixes */
		int phase, p_add;

		if (!sawtooth) {
			/* grow to the target, shrink below 1/8 load, then mix */
			phase = i < nops / 2 ? 0 : i < (nops * 4) / 5 ? 1 : 2;
			p_add = phase == 0 ? 80 : phase == 1 ? 8 : 45;
		} else {
			/* saw-tooth: grow, shrink only part of the way (the table is still shrinking), grow past the old
			 * peak, and again: resize steps are crossed in both directions before they finish */
			static const int goal_pct[] = {100, 15, 115, 12, 100};

			if (KN >= target * goal_pct[saw_stage] / 100 && (saw_stage % 2) == 0 && saw_stage < 4)
				saw_stage++;
			else if (KN <= target * goal_pct[saw_stage] / 100 && (saw_stage % 2) == 1)
				saw_stage++;
			phase = saw_stage % 2;
			p_add = phase == 0 ? 92 : 4;
			if (saw_stage >= 4 && KN >= target)
				p_add = 45; /* profile finished: hover */
		}
		const char *opn;

		if (KN >= MAXK - 64)
			p_add = 0; /* the model array is bounded */
		if (KN == 0 || (int)k < p_add) {
			gen_key(r, &m, variety);
			if (KN && rndp(r, 1, 10))
				m = K[rndn(r, (uint32_t)KN)]; /* duplicate */
			key_to_rec(&m, &rec);
			ix = kmodel_find(&m);
			rc = spki_table_add_entry(&t, &rec);
			want = ix >= 0 ? SPKI_DUPLICATE_RECORD : SPKI_SUCCESS;
			if (rc == SPKI_SUCCESS && ix < 0 && KN < MAXK)
				K[KN++] = m;
			opn = ix >= 0 ? "add-dup" : "add";
		} else if (k < 93 || phase == 0) {
			m = K[rndn(r, (uint32_t)KN)];
			if (rndp(r, 1, 6)) {
				switch (rndn(r, 3)) {
				case 0:
					m.asn ^= 1;
					break;
				case 1:
					m.spki[rndn(r, SPKI_SIZE)] ^= (uint8_t)(1u << rndn(r, 8)); /* any single bit of the key */
					break;
				default:
					m.src = (uint8_t)((m.src + 1) % 3);
					break;
				}
			}
			key_to_rec(&m, &rec);
			ix = kmodel_find(&m);
			rc = spki_table_remove_entry(&t, &rec);
			want = ix >= 0 ? SPKI_SUCCESS : SPKI_RECORD_NOT_FOUND;
			if (rc == SPKI_SUCCESS && ix >= 0)
				K[ix] = K[--KN];
			opn = ix >= 0 ? "remove" : "remove-absent";
		} else if (k < 97) {
			int src = (int)rndn(r, 4);
			int w = 0;

			memset(&m, 0, sizeof(m));
			m.src = (uint8_t)src;
			rc = spki_table_src_remove(&t, &SRC[src]);
			want = SPKI_SUCCESS;
			for (int j = 0; j < KN; j++)
				if (K[j].src != src)
					K[w++] = K[j];
			KN = w;
			opn = "src-remove";
		} else {
			/* the pattern the library uses for an atomic reload of source s:
			 * dst = copy_except_socket(src, s); add new keys of s to dst; swap; notify_diff */
			struct spki_table sh;
			int s = (int)rndn(r, 3);
			static struct mkey NEWK[MAXK];
			int nn = 0, w = 0;

			memset(&m, 0, sizeof(m));
			m.src = (uint8_t)s;
			spki_table_init(&sh, NULL);
			rc = spki_table_copy_except_socket(&t, &sh, &SRC[s]);
			want = SPKI_SUCCESS;
			int nnew = (int)rndn(r, 12);

			for (int j = 0; j < KN; j++) /* keep about half of s's old keys */
				if (K[j].src == s && rndp(r, 1, 2) && nn < MAXK)
					NEWK[nn++] = K[j];
			for (int j = 0; j < nnew && nn < MAXK; j++) {
				struct mkey nk;

				gen_key(r, &nk, variety);
				nk.src = (uint8_t)s;
				bool dup = false;

				for (int q = 0; q < nn; q++)
					dup |= mkey_eq(&NEWK[q], &nk);
				if (!dup)
					NEWK[nn++] = nk;
			}
			for (int j = 0; j < nn; j++) {
				struct spki_record nr;

				key_to_rec(&NEWK[j], &nr);
				if (spki_table_add_entry(&sh, &nr) != SPKI_SUCCESS)
					viol("C10", "C10:shadow-add-failed", "adding a fresh key to the shadow copy failed");
			}
			spki_table_swap(&t, &sh);
			spki_table_notify_diff(&t, &sh, &SRC[s]);
			spki_table_free_without_notify(&sh);
			for (int j = 0; j < KN; j++)
				if (K[j].src != s)
					K[w++] = K[j];
			KN = w;
			for (int j = 0; j < nn && KN < MAXK; j++)
				K[KN++] = NEWK[j];
			CNT("c10/copy_swap_diff_cycles");
			opn = "copy-swap-diff";
		}
		if (i % 37 == 36 && KN > 2) {
			/* copy into a table that already holds some of the keys: duplicates must be rejected, dst stays a set */
			struct spki_table d2;
			static struct mkey pre[MAXK], got2[MAXK];
			int npre = 0, ng2 = 0, s2 = (int)rndn(r, 3);

			D2_T = &d2;
			D2MN = 0;
			spki_table_init(&d2, i % 74 == 36 ? d2_cb : NULL);
			for (int j = 0; j < KN && npre < 6; j++) {
				if (K[j].src != s2 && rndp(r, 1, 3)) {
					struct spki_record pr;

					key_to_rec(&K[j], &pr);
					if (spki_table_add_entry(&d2, &pr) == SPKI_SUCCESS)
						pre[npre++] = K[j];
				}
			}
			(void)spki_table_copy_except_socket(&t, &d2, &SRC[s2]);
			for (int sk = 0; sk < 5; sk++) {
				struct spki_record *res = NULL;
				unsigned int n = 0;

				if (spki_table_search_by_ski(&d2, SKIS[sk], &res, &n) == SPKI_SUCCESS) {
					for (unsigned int q = 0; q < n && ng2 < MAXK; q++)
						key_from_rec(&res[q], &got2[ng2++]);
					lrtr_free(res);
				}
			}
			qsort(got2, (size_t)ng2, sizeof(got2[0]), mkey_cmp);
			for (int q = 1; q < ng2; q++)
				if (mkey_eq(&got2[q - 1], &got2[q])) {
					viol("C10", "C10:copy-creates-duplicate", "spki_table_copy_except_socket into a table that already held %d of the keys left the same key stored twice", npre);
					break;
				}
			for (int q = 0; q < ng2; q++) {
				bool known = got2[q].src != s2 && kmodel_find(&got2[q]) >= 0;

				if (!known) {
					viol("C10", "C10:copy-foreign-key", "copy_except_socket produced a key that is neither in the source nor allowed (source %u)", got2[q].src);
					break;
				}
			}
			CNT("c10/copies_into_nonempty_table");
			if (d2.update_fp || i % 74 == 36) {
				/* the destination's own callbacks: whatever the (possibly refused) copy put there was announced, and the
				 * table goes on announcing afterwards */
				struct mkey extra;
				struct spki_record er;
				int before;

				CNT("c10/copy_destinations_with_callbacks");
				qsort(D2M, (size_t)D2MN, sizeof(D2M[0]), mkey_cmp);
				if (D2MN != ng2 || memcmp(D2M, got2, (size_t)ng2 * sizeof(got2[0])))
					viol("C10", "C10:copy-destination-callbacks-differ", "after copy_except_socket into a table with %d keys the destination holds %d keys, its callbacks announced %d",
					     npre, ng2, D2MN);
				gen_key(r, &extra, 1000000);
				extra.spki[7] = 0xD2;
				key_to_rec(&extra, &er);
				before = D2MN;
				if (spki_table_add_entry(&d2, &er) == SPKI_SUCCESS && D2MN != before + 1)
					viol("C10", "C10:copy-destination-silent-afterwards", "an add to the destination of an earlier copy_except_socket was not announced to its callback");
			}
			D2_T = NULL;
			spki_table_free(&d2);
		}
		cntf(1, "c10/op/%s", opn);
		if (rc != want) {
			snprintf(key, sizeof(key), "C10:return-code:%s:got-%d-want-%d", opn, rc, want);
			viol("C10", key, "%s returned %d, model says %d (table of %d)", opn, rc, want, KN);
		}
		hh = hmix(hh, hbytes((uint64_t)opn[0], &m, sizeof(m)));
		if (KN > peak)
			peak = KN;
		if (KN > 33)
			grew = true;
		if (grew && KN < peak / 8)
			shrank = true;
		check_spki_lookups(&t, opn, r, KN < 60 || i % 24 == 0 || i == nops - 1);
	}
	cnt_max("max:c10/peak_keys", (uint64_t)peak);
	if (grew)
		CNT("c10/histories_crossing_grow_step");
	if (shrank)
		CNT("c10/histories_shrinking_below_eighth");
	/* raw swap exchanges contents */
	{
		struct spki_table o;
		struct mkey m;
		struct spki_record rec;
		static struct mkey save[MAXK];
		int nsave = KN;

		memcpy(save, K, KN * sizeof(K[0]));
		spki_table_init(&o, NULL);
		gen_key(r, &m, 1000000);
		m.spki[3] = 0xEE;
		key_to_rec(&m, &rec);
		spki_table_add_entry(&o, &rec);
		spki_table_swap(&t, &o);
		KCB_BROKEN = true; /* a raw swap is not a callback-visible operation */
		K[0] = m;
		KN = 1;
		check_spki_lookups(&t, "raw-swap", r, true);
		spki_table_swap(&t, &o);
		memcpy(K, save, nsave * sizeof(K[0]));
		KN = nsave;
		check_spki_lookups(&t, "raw-swap-back", r, true);
		spki_table_free(&o);
	}
	if (want_sample())
		sample("{\"target_size\":%d,\"ops\":%d,\"peak_keys\":%d,\"final_keys\":%d,\"colliding_asns\":[%u,%u,%u]}", target, nops, peak, KN, COLLIDE_ASN[0],
		       COLLIDE_ASN[1], COLLIDE_ASN[2]);
	nontrivial_for("C10", hmix(hh, (uint64_t)peak), 1);
	spki_table_free(&t);
	KN = 0;
	if (c % 4 == 1)
		twin_adds(r);
}

/* ================================================================== C18: allocation failure enumeration */
static void alloc_pfx_history(struct rng *r0, unsigned long fail_at, unsigned long *nreq, bool *leak_checked)
{
	struct rng r = *r0;
	struct pfx_table t;
	struct puni u;
	int nops = 8 + (int)rndn(&r, 30);
	char key[160];
	struct pfx_record *reason = NULL; /* one array for all queries of the history, as a caller would keep it */
	unsigned int rl = 0;

	puni_init(&u, &r);
	MN = CBN = 0;
	CB_ON = true;
	CB_BROKEN = false;
	CUR_T = &t;
	am_reset();
	AM.fail_at = fail_at;
	pfx_table_init(&t, pfx_cb);
	for (int i = 0; i < nops; i++) {
		int op;
		struct mrec m;
		static struct mrec before[MAXM];
		int nbefore = MN;
		unsigned long inj = AM.failures_injected;

		memcpy(before, M, MN * sizeof(M[0]));
		int rc = do_pfx_op(&t, &u, &r, &op, &m);

		if (AM.failures_injected != inj) {
			CNT("c18/pfx/ops_hit_by_failure");
			cntf(1, "c18/pfx/failure_in/%s/%s", OPN[op], rc == PFX_ERROR ? "error" : "absorbed");
			ENUMN = 0;
			pfx_table_for_each_ipv4_record(&t, enum_cb, NULL);
			pfx_table_for_each_ipv6_record(&t, enum_cb, NULL);
			if (rc == PFX_ERROR) {
				/* error: no partial effect */
				if (!sets_equal(ENUM, ENUMN, before, nbefore)) {
					snprintf(key, sizeof(key), "C18:pfx:error-but-partly-applied:%s", OPN[op]);
					viol("C18", key, "%s returned PFX_ERROR after an allocation failure but the table changed (%d -> %d records)", OPN[op], nbefore,
					     ENUMN);
				}
				/* the change log must not have moved either: a callback for a change that did not happen */
				if (!CB_BROKEN && !sets_equal(CBS, CBN, ENUM, ENUMN)) {
					snprintf(key, sizeof(key), "C09:tab:callback-for-failed-operation:%s", OPN[op]);
					viol("C09", key, "%s failed with PFX_ERROR (allocation failure) and left the table unchanged, but the replayed callbacks now give %d records instead of %d",
					     OPN[op], CBN, ENUMN);
					snprintf(key, sizeof(key), "C18:pfx:callback-for-failed-operation:%s", OPN[op]);
					viol("C18", key, "%s failed with PFX_ERROR but an update callback was delivered", OPN[op]);
					CB_BROKEN = true;
				}
				/* continue from what the table really holds so that one defect is reported once */
				memcpy(M, ENUM, ENUMN * sizeof(M[0]));
				MN = ENUMN;
			} else if (!sets_equal(ENUM, ENUMN, M, MN)) {
				snprintf(key, sizeof(key), "C18:pfx:success-but-not-applied:%s", OPN[op]);
				viol("C18", key, "%s returned success although an allocation failed, and the table differs from the full effect", OPN[op]);
				memcpy(M, ENUM, ENUMN * sizeof(M[0]));
				MN = ENUMN;
			}
		}
		check_enumeration(&t, OPN[op]);
		if (i % 6 == 5 && MN) {
			/* reason-array growth is an allocation site too */
			const struct mrec *q = &M[rndn(&r, (uint32_t)MN)];
			struct lrtr_ip_addr ip;
			enum pfxv_state st;
			unsigned long inj2 = AM.failures_injected;

			memset(&ip, 0, sizeof(ip));
			if (q->fam == 4) {
				ip.ver = LRTR_IPV4;
				ip.u.addr4.addr = q->a[0];
			} else {
				ip.ver = LRTR_IPV6;
				memcpy(ip.u.addr6.addr, q->a, 16);
			}
			int vrc = pfx_table_validate_r(&t, &reason, &rl, q->asn, &ip, q->fam == 4 ? 32 : 128, &st);

			if (AM.failures_injected != inj2) {
				CNT("c18/pfx/validate_hit_by_failure");
				if (vrc != PFX_ERROR)
					viol("C18", "C18:pfx:validate-success-despite-failure", "pfx_table_validate_r returned %d although its reason allocation failed", vrc);
				else if (reason != NULL || rl != 0)
					viol("C18", "C18:pfx:validate-error-leaves-reason", "pfx_table_validate_r failed but left reason=%p len=%u", (void *)reason, rl);
			}
			/* the caller's array is handed in again by the next query (the library grows, shrinks or releases it): every
			 * third time with a route nothing covers, so that the library itself gives the block back */
			if (i % 18 == 5 && reason) {
				struct lrtr_ip_addr far = ip;

				if (far.ver == LRTR_IPV4)
					far.u.addr4.addr ^= 0xA5000000u;
				else
					far.u.addr6.addr[0] ^= 0xA5000000u;
				inj2 = AM.failures_injected;
				vrc = pfx_table_validate_r(&t, &reason, &rl, 4242424242u, &far, q->fam == 4 ? 32 : 128, &st);
				CNT("c18/pfx/reason_array_handed_back_in");
				if (vrc == PFX_SUCCESS && st == BGP_PFXV_STATE_NOT_FOUND) {
					CNT("c18/pfx/reason_array_released_by_the_library");
					if (reason != NULL || rl != 0)
						viol("C18", "C18:pfx:not-found-leaves-reason", "NOT FOUND with a reused reason array left reason=%p len=%u", (void *)reason, rl);
				}
			}
		}
	}
	if (reason)
		lrtr_free(reason);
	pfx_table_free(&t);
	MN = 0;
	*nreq = AM.requests;
	if (fail_at == 0) {
		*leak_checked = true;
		CNT("c18/pfx/leak_checks");
		if (AM.live_blocks != 0 || AM.bad_free)
			viol("C18", AM.bad_free ? "C18:pfx:foreign-free" : "C18:pfx:leak", "failure-free history: %ld blocks (%ld bytes) still allocated after pfx_table_free, %lu bad frees",
			     AM.live_blocks, AM.live_bytes, AM.bad_free);
	}
}

static void alloc_spki_history(struct rng *r0, unsigned long fail_at, unsigned long *nreq)
{
	struct rng r = *r0;
	struct spki_table t;
	int nops = 50 + (int)rndn(&r, 60);
	char key[160];

	KN = KCBN = 0;
	KCB_BROKEN = true;
	CUR_KT = &t;
	am_reset();
	AM.fail_at = fail_at;
	spki_table_init(&t, NULL);
	for (int i = 0; i < nops; i++) {
		struct mkey m;
		struct spki_record rec;
		static struct mkey before[MAXK];
		int nbefore = KN, rc, ix;
		unsigned long inj = AM.failures_injected;
		const char *opn;
		uint32_t k = rndn(&r, 100);

		memcpy(before, K, KN * sizeof(K[0]));
		if (KN == 0 || k < 70) {
			gen_key(&r, &m, 200);
			key_to_rec(&m, &rec);
			ix = kmodel_find(&m);
			rc = spki_table_add_entry(&t, &rec);
			if (rc == SPKI_SUCCESS && ix < 0)
				K[KN++] = m;
			opn = "add";
		} else if (k < 90) {
			m = K[rndn(&r, (uint32_t)KN)];
			key_to_rec(&m, &rec);
			ix = kmodel_find(&m);
			rc = spki_table_remove_entry(&t, &rec);
			if (rc == SPKI_SUCCESS)
				K[ix] = K[--KN];
			opn = "remove";
		} else {
			/* lookups allocate their result arrays */
			struct spki_record *res = NULL;
			unsigned int n = 0;

			m = K[rndn(&r, (uint32_t)KN)];
			if (k < 95)
				rc = spki_table_get_all(&t, m.asn, m.ski, &res, &n);
			else
				rc = spki_table_search_by_ski(&t, m.ski, &res, &n);
			if (rc == SPKI_SUCCESS)
				lrtr_free(res);
			opn = "lookup";
		}
		if (AM.failures_injected != inj) {
			CNT("c18/spki/ops_hit_by_failure");
			cntf(1, "c18/spki/failure_in/%s/%s", opn, rc == SPKI_ERROR ? "error" : "absorbed");
			if (rc == SPKI_ERROR) {
				memcpy(K, before, nbefore * sizeof(K[0]));
				KN = nbefore;
			}
			if (rc != SPKI_ERROR && !strcmp(opn, "lookup"))
				viol("C18", "C18:spki:lookup-success-despite-failure", "lookup returned %d although its result allocation failed", rc);
		}
		/* set semantics must still hold: contents == model (error => unchanged, success => full effect) */
		{
			static struct mkey all[MAXK];
			int nall = 0;
			AM.paused = 1; /* the checker's own lookups are neither counted nor failed */
			for (int s = 0; s < 5; s++) {
				struct spki_record *res = NULL;
				unsigned int n = 0;

				if (spki_table_search_by_ski(&t, SKIS[s], &res, &n) == SPKI_SUCCESS) {
					for (unsigned int q = 0; q < n && nall < MAXK; q++)
						key_from_rec(&res[q], &all[nall++]);
					lrtr_free(res);
				}
			}
			AM.paused = 0;
			if (!keysets_equal(all, nall, K, KN)) {
				snprintf(key, sizeof(key), "C18:spki:%s:%s", rc == SPKI_ERROR ? "error-but-partly-applied" : "contents-differ", opn);
				viol("C18", key, "%s (rc %d, allocation failure injected: %d): table holds %d keys, model %d", opn, rc,
				     AM.failures_injected != inj, nall, KN);
				memcpy(K, all, nall * sizeof(K[0]));
				KN = nall;
			}
		}
	}
	spki_table_free(&t);
	KN = 0;
	*nreq = AM.requests;
	if (fail_at == 0) {
		CNT("c18/spki/leak_checks");
		if (AM.live_blocks != 0 || AM.bad_free)
			viol("C18", AM.bad_free ? "C18:spki:foreign-free" : "C18:spki:leak",
			     "failure-free history: %ld blocks (%ld bytes) still allocated after spki_table_free, %lu bad frees", AM.live_blocks, AM.live_bytes,
			     AM.bad_free);
	}
}

static void run_alloc_case(struct rng *r, long c, bool spki)
{
	unsigned long n = 0, dummy;
	bool lc = false;

	am_install();
	if (spki)
		alloc_spki_history(r, 0, &n);
	else
		alloc_pfx_history(r, 0, &n, &lc);
	cnt_add(spki ? "c18/spki/allocation_sites_enumerated" : "c18/pfx/allocation_sites_enumerated", n);
	for (unsigned long k = 1; k <= n; k++) {
		if (spki)
			alloc_spki_history(r, k, &dummy);
		else
			alloc_pfx_history(r, k, &dummy, &lc);
		CNT("c18/runs_with_injected_failure");
		nontrivial_for("C18", hmix(hmix((uint64_t)c, k), spki), 1);
	}
	am_reset();
	am_uninstall();
	if (want_sample())
		sample("{\"table\":\"%s\",\"allocations_in_history\":%lu,\"each_failed_once\":true}", spki ? "spki" : "pfx", n);
}

int main(int argc, char **argv)
{
	if (argc < 6) {
		fprintf(stderr, "usage: %s mode seed from to outfile\n", argv[0]);
		return 2;
	}
	const char *mode = argv[1];
	uint64_t seed = strtoull(argv[2], NULL, 0);
	long from = atol(argv[3]), to = atol(argv[4]);
	long bigrec = argkv_l(argc, argv, "records", 8000);

	vo_open(argv[5]);
	find_colliding_asns();
	for (long c = from; c < to; c++) {
		struct rng r;

		vo_case(c);
		rng_seed(&r, seed, (uint64_t)c);
		if (!strcmp(mode, "pfx"))
			run_pfx_case(&r, c);
		else if (!strcmp(mode, "pfxbig"))
			run_pfx_big_case(&r, c, (int)bigrec);
		else if (!strcmp(mode, "spki"))
			run_spki_case(&r, c);
		else if (!strcmp(mode, "allocpfx"))
			run_alloc_case(&r, c, false);
		else if (!strcmp(mode, "allocspki"))
			run_alloc_case(&r, c, true);
		else
			return 2;
		CNT("tab/histories");
	}
	vo_close();
	return 0;
}
