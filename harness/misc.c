/* misc engine: C19 (address text conversion) and C20 (state / status names).
 *
 * modes:
 *   enum   case i = one (function, value) probe                       -> C20
 *   ip4    case i = a batch of IPv4 addresses (grid / random / stride) -> C19
 *   ip6    case i = a batch of IPv6 addresses with zero-pattern i%256  -> C19
 *   ipstr  case i = strings derived from one address by respelling,
 *          truncation and mutation, judged against inet_pton           -> C19
 */
#include "vcommon.h"

#include "rtrlib/lib/ip_private.h"
#include "rtrlib/rtr/rtr_private.h"
#include "rtrlib/rtr_mgr_private.h"

#include <arpa/inet.h>
#include <errno.h>
#include <limits.h>

#include "enum_names.h"

#if defined(__has_feature)
#if __has_feature(memory_sanitizer)
#include <sanitizer/msan_interface.h>
#define HAVE_MSAN 1
#endif
#endif

VCOMMON_GLOBALS

/* ------------------------------------------------------------------ C20 */
static const int OUTSIDE[] = {-1, -2, 64, 255, 256, 4096, 65536, INT_MAX, INT_MIN};
#define N_OUTSIDE ((int)(sizeof(OUTSIDE) / sizeof(OUTSIDE[0])))

static int in_enum(const struct enum_name *t, int n, int v)
{
	for (int i = 0; i < n; i++)
		if (t[i].value == v)
			return 1;
	return 0;
}

/* probe list per function: every enumerator, last+1, last+2, and the fixed outside values */
static int enum_probe(const struct enum_name *t, int n, int idx, int *val, const char **expect)
{
	int last = t[0].value;

	for (int i = 1; i < n; i++)
		if (t[i].value > last)
			last = t[i].value;
	if (idx < n) {
		*val = t[idx].value;
		*expect = t[idx].name;
		return 1;
	}
	idx -= n;
	if (idx < 2) {
		*val = last + 1 + idx;
		*expect = NULL;
		return 1;
	}
	idx -= 2;
	if (idx < N_OUTSIDE) {
		*val = OUTSIDE[idx];
		*expect = in_enum(t, n, *val) ? "?" : NULL;
		return *expect == NULL;
	}
	return 0;
}

static int enum_nprobes(int n)
{
	return n + 2 + N_OUTSIDE;
}

static void run_enum_case(long c)
{
	int nsock = enum_nprobes(N_SOCKET_STATES);
	int val;
	const char *expect, *got, *fn;
	char key[160];

	if (c < nsock) {
		if (!enum_probe(SOCKET_STATES, N_SOCKET_STATES, (int)c, &val, &expect))
			return;
		fn = "rtr_state_to_str";
		got = rtr_state_to_str((enum rtr_socket_state)val);
	} else {
		if (!enum_probe(MGR_STATUS, N_MGR_STATUS, (int)(c - nsock), &val, &expect))
			return;
		fn = "rtr_mgr_status_to_str";
		got = rtr_mgr_status_to_str((enum rtr_mgr_status)val);
	}
	CNT("c20/probes");
	if (expect) {
		CNT("c20/enumerators_probed");
		if (!got || strcmp(got, expect) != 0) {
			snprintf(key, sizeof(key), "C20:name:%s:%s", fn, expect);
			viol("C20", key, "%s(%d) returned %s%s%s, expected \"%s\"", fn, val, got ? "\"" : "",
			     got ? got : "NULL", got ? "\"" : "", expect);
		}
		nontrivial(hmix(val, fn[4]));
	} else {
		CNT("c20/outside_values_probed");
		if (got) {
			snprintf(key, sizeof(key), "C20:outside-not-null:%s", fn);
			viol("C20", key, "%s(%d) returned a non-NULL pointer for a value outside the enumeration", fn,
			     val);
		}
		nontrivial(hmix(val, fn[4]));
	}
	sample("{\"fn\":\"%s\",\"value\":%d,\"expected\":%s%s%s,\"got\":%s%s%s}", fn, val, expect ? "\"" : "",
	       expect ? expect : "null", expect ? "\"" : "", got ? "\"" : "", got ? got : "null", got ? "\"" : "");
}

/* The name a conversion returns is the caller's to keep ("changed from %s to %s"): all names are collected first and
 * compared afterwards, then every value is converted once more in reverse order and the pointers of the first pass are
 * compared again; and four threads convert different values concurrently, as the library's own socket threads do on
 * every status change. */
struct held {
	const char *fn, *expect, *got;
	int val;
};

static int collect_names(struct held *h, int reverse)
{
	int n = 0;

	for (int f = 0; f < 2; f++) {
		const struct enum_name *t = f ? MGR_STATUS : SOCKET_STATES;
		int cnt = f ? N_MGR_STATUS : N_SOCKET_STATES;

		for (int k = 0; k < cnt; k++) {
			int i = reverse ? cnt - 1 - k : k;

			h[n].fn = f ? "rtr_mgr_status_to_str" : "rtr_state_to_str";
			h[n].val = t[i].value;
			h[n].expect = t[i].name;
			h[n].got = f ? rtr_mgr_status_to_str((enum rtr_mgr_status)t[i].value) : rtr_state_to_str((enum rtr_socket_state)t[i].value);
			n++;
		}
	}
	return n;
}

static void check_held(const struct held *h, int n, const char *when)
{
	char key[200];

	for (int i = 0; i < n; i++) {
		CNT("c20/held_names_compared");
		if (!h[i].got || strcmp(h[i].got, h[i].expect) != 0) {
			snprintf(key, sizeof(key), "C20:held-name:%s:%s:%s", when, h[i].fn, h[i].expect);
			viol("C20", key, "%s(%d): the name returned reads %s%s%s %s, expected \"%s\"", h[i].fn, h[i].val, h[i].got ? "\"" : "",
			     h[i].got ? h[i].got : "NULL", h[i].got ? "\"" : "", when, h[i].expect);
		}
	}
}

struct enum_thr {
	pthread_t th;
	int id;
	long wrong, rounds;
	char first_wrong[64];
};

static void *enum_thread(void *arg)
{
	struct enum_thr *t = arg;

	for (long r = 0; r < 200000; r++) {
		int i = (int)((t->id + r) % N_SOCKET_STATES), j = (int)((t->id * 3 + r) % N_MGR_STATUS);
		const char *a = rtr_state_to_str((enum rtr_socket_state)SOCKET_STATES[i].value);
		const char *b = rtr_mgr_status_to_str((enum rtr_mgr_status)MGR_STATUS[j].value);
		char ca[64] = "", cb[64] = "";

		if (a)
			strncpy(ca, a, sizeof(ca) - 1);
		if (b)
			strncpy(cb, b, sizeof(cb) - 1);
		t->rounds++;
		if (strcmp(ca, SOCKET_STATES[i].name) != 0 || strcmp(cb, MGR_STATUS[j].name) != 0) {
			if (!t->wrong)
				snprintf(t->first_wrong, sizeof(t->first_wrong), "%s", strcmp(ca, SOCKET_STATES[i].name) ? ca : cb);
			t->wrong++;
		}
	}
	return NULL;
}

static void run_enumheld_case(long c)
{
	struct held h[64], h2[64];

	if (N_SOCKET_STATES + N_MGR_STATUS > 64)
		return;
	if (c == 0) {
		int n = collect_names(h, 0);

		check_held(h, n, "after-all-values-were-converted");
		collect_names(h2, 1);
		check_held(h, n, "after-a-second-pass-in-reverse-order");
		nontrivial(hmix(0x20, (uint64_t)n));
	} else {
		struct enum_thr t[4];
		long wrong = 0, rounds = 0;

		memset(t, 0, sizeof(t));
		for (int i = 0; i < 4; i++) {
			t[i].id = i;
			pthread_create(&t[i].th, NULL, enum_thread, &t[i]);
		}
		for (int i = 0; i < 4; i++) {
			pthread_join(t[i].th, NULL);
			wrong += t[i].wrong;
			rounds += t[i].rounds;
		}
		cnt_add("c20/concurrent_conversions_compared", (uint64_t)rounds * 2);
		if (wrong) {
			int w = 0;

			while (w < 3 && !t[w].wrong)
				w++;
			viol("C20", "C20:name-wrong-under-concurrent-conversions", "%ld of %ld conversion pairs made by 4 threads at the same time gave a wrong name (first: \"%s\")", wrong,
			     rounds, t[w].first_wrong);
		}
		nontrivial(hmix(0x21, (uint64_t)c));
	}
}

/* ------------------------------------------------------------------ C19 helpers */
static void __attribute__((noinline)) dirty_stack(int pattern)
{
	volatile unsigned char junk[6000];

	for (unsigned int i = 0; i < sizeof(junk); i++)
		junk[i] = (unsigned char)pattern;
	__asm__ volatile("" ::: "memory");
}

static void v6_from_bytes(const uint8_t b[16], struct lrtr_ip_addr *ip)
{
	memset(ip, 0, sizeof(*ip));
	ip->ver = LRTR_IPV6;
	for (int i = 0; i < 4; i++)
		ip->u.addr6.addr[i] = ((uint32_t)b[4 * i] << 24) | ((uint32_t)b[4 * i + 1] << 16) |
				      ((uint32_t)b[4 * i + 2] << 8) | b[4 * i + 3];
}

static void v6_to_bytes(const struct lrtr_ip_addr *ip, uint8_t b[16])
{
	for (int i = 0; i < 4; i++) {
		uint32_t w = ip->u.addr6.addr[i];

		b[4 * i] = w >> 24;
		b[4 * i + 1] = w >> 16;
		b[4 * i + 2] = w >> 8;
		b[4 * i + 3] = w;
	}
}

static bool ip_same(const struct lrtr_ip_addr *a, const struct lrtr_ip_addr *b)
{
	if (a->ver != b->ver)
		return false;
	if (a->ver == LRTR_IPV4)
		return a->u.addr4.addr == b->u.addr4.addr;
	return memcmp(a->u.addr6.addr, b->u.addr6.addr, 16) == 0;
}

/* parse with the library twice under different stack / output pre-fill; returns rc, *out valid if rc==0.
 * Reports nondeterminism ("the result of parsing depends only on the text given"). */
static int parse_det(const char *s, struct lrtr_ip_addr *out, const char *origin)
{
	struct lrtr_ip_addr a, b;
	int ra, rb;
	char key[200];

	memset(&a, 0x00, sizeof(a));
	dirty_stack(0x00);
	errno = ERANGE; /* whatever an earlier, unrelated call left behind is no input of the conversion either */
	ra = lrtr_ip_str_to_addr(s, &a);
	memset(&b, 0xff, sizeof(b));
	dirty_stack(0xff);
	errno = 0;
	rb = lrtr_ip_str_to_addr(s, &b);
	CNT("c19/parse_pairs");
	if (ra != rb || (ra == 0 && !ip_same(&a, &b))) {
		/* key by structural shape of the string, so that the same defect maps to one key */
		int colons = 0, dots = 0, dbl = strstr(s, "::") != NULL;

		for (const char *p = s; *p; p++) {
			colons += *p == ':';
			dots += *p == '.';
		}
		snprintf(key, sizeof(key), "C19:nondeterministic-parse:%s", colons ? (dbl ? "v6-compressed" : (colons < 7 && !dots ? "v6-too-few-groups" : "v6")) : "v4");
		viol("C19", key, "parsing \"%s\" (%s) twice gave rc=%d/%d addr=%08x:%08x:%08x:%08x vs %08x:%08x:%08x:%08x",
		     s, origin, ra, rb, a.u.addr6.addr[0], a.u.addr6.addr[1], a.u.addr6.addr[2], a.u.addr6.addr[3],
		     b.u.addr6.addr[0], b.u.addr6.addr[1], b.u.addr6.addr[2], b.u.addr6.addr[3]);
	}
#ifdef HAVE_MSAN
	if (ra == 0) {
		size_t n = a.ver == LRTR_IPV4 ? sizeof(a.u.addr4) : sizeof(a.u.addr6);

		if (__msan_test_shadow(&a.u, n) != -1) {
			snprintf(key, sizeof(key), "C19:uninit-result:%s", strchr(s, ':') ? "v6" : "v4");
			viol("C19", key, "parse of \"%s\" succeeded but result bytes are uninitialised (MSan shadow)", s);
		}
		__msan_unpoison(&a, sizeof(a));
		__msan_unpoison(&b, sizeof(b));
	}
#endif
	if (ra == 0)
		*out = a;
	return ra;
}

/* judge one string against the platform parser: accepted by inet_pton => accepted by the library, same result */
static void judge_string(const char *s, const char *origin)
{
	struct lrtr_ip_addr lib, ref;
	int rc;
	uint8_t b[16];
	int pton;
	char key[200];

	CNT("c19/strings_judged");
	rc = parse_det(s, &lib, origin);
	memset(&ref, 0, sizeof(ref));
	if (strchr(s, ':')) {
		pton = inet_pton(AF_INET6, s, b);
		if (pton == 1)
			v6_from_bytes(b, &ref);
	} else {
		pton = inet_pton(AF_INET, s, b);
		if (pton == 1) {
			ref.ver = LRTR_IPV4;
			ref.u.addr4.addr = ((uint32_t)b[0] << 24) | (b[1] << 16) | (b[2] << 8) | b[3];
		}
	}
	if (pton == 1) {
		CNT("c19/strings_accepted_by_inet_pton");
		if (rc != 0) {
			snprintf(key, sizeof(key), "C19:pton-accepts-lib-rejects:%s", origin);
			viol("C19", key, "inet_pton accepts \"%s\" but lrtr_ip_str_to_addr rejects it", s);
		} else if (!ip_same(&lib, &ref)) {
			snprintf(key, sizeof(key), "C19:pton-differs:%s", origin);
			viol("C19", key, "\"%s\": library %08x:%08x:%08x:%08x (ver %d) != inet_pton %08x:%08x:%08x:%08x", s,
			     lib.u.addr6.addr[0], lib.u.addr6.addr[1], lib.u.addr6.addr[2], lib.u.addr6.addr[3], lib.ver,
			     ref.u.addr6.addr[0], ref.u.addr6.addr[1], ref.u.addr6.addr[2], ref.u.addr6.addr[3]);
		} else {
			/* lrtr_ip_str_cmp must agree */
			if (!lrtr_ip_str_cmp(&ref, s)) {
				snprintf(key, sizeof(key), "C19:str_cmp-false:%s", origin);
				viol("C19", key, "lrtr_ip_str_cmp says \"%s\" differs from its own value", s);
			}
			struct lrtr_ip_addr other = ref;

			if (other.ver == LRTR_IPV4)
				other.u.addr4.addr ^= 0x00010000;
			else
				other.u.addr6.addr[2] ^= 0x00010000;
			if (lrtr_ip_str_cmp(&other, s)) {
				snprintf(key, sizeof(key), "C19:str_cmp-true-for-other:%s", origin);
				viol("C19", key, "lrtr_ip_str_cmp says \"%s\" equals a different address", s);
			}
		}
		nontrivial(hbytes(0x19, s, strlen(s)));
	} else {
		CNT("c19/strings_rejected_by_inet_pton");
		if (rc == 0)
			CNT("c19/strings_lib_accepts_pton_rejects_info");
	}
}

/* to_str into a heap block of exactly `len` bytes: ASan's red zone makes any write beyond it fatal.
 * returns rc; text copied to out (if it fits) */
static int to_str_exact(const struct lrtr_ip_addr *ip, unsigned int len, char *out, size_t outlen)
{
	char *buf = malloc(len ? len : 1);
	char *probe = len ? buf : buf; /* len==0: one byte allocated, must stay untouched */
	int rc;

	memset(buf, 0x5a, len ? len : 1);
	rc = lrtr_ip_addr_to_str(ip, probe, len);
	CNT("c19/to_str_exact_buffer_calls");
	if (len == 0 && (unsigned char)buf[0] != 0x5a)
		viol("C19", "C19:to_str-writes-with-len0", "lrtr_ip_addr_to_str wrote although len was 0");
	if (rc == 0 && len > 0) {
		size_t n = strnlen(buf, len);

		if (n == len) {
			viol("C19", "C19:to_str-unterminated", "lrtr_ip_addr_to_str returned 0 but left no NUL within len=%u", len);
			n = len - 1;
		}
		if (out) {
			if (n >= outlen)
				n = outlen - 1;
			memcpy(out, buf, n);
			out[n] = 0;
		}
	} else if (out) {
		out[0] = 0;
	}
	free(buf);
	return rc;
}

static void check_roundtrip(const struct lrtr_ip_addr *ip, bool full_len_sweep)
{
	char txt[80], ref[80], key[160];
	unsigned int need = ip->ver == LRTR_IPV4 ? INET_ADDRSTRLEN : INET6_ADDRSTRLEN;
	uint8_t b[16];
	struct lrtr_ip_addr back;
	int rc;

	if (full_len_sweep) {
		for (unsigned int len = 0; len <= 64; len++) {
			rc = to_str_exact(ip, len, txt, sizeof(txt));
			if (len >= need && rc != 0) {
				snprintf(key, sizeof(key), "C19:to_str-fails:v%d", ip->ver == LRTR_IPV4 ? 4 : 6);
				viol("C19", key, "lrtr_ip_addr_to_str failed (rc=%d) with sufficient len=%u", rc, len);
			}
		}
	}
	rc = to_str_exact(ip, need, txt, sizeof(txt));
	if (rc != 0) {
		snprintf(key, sizeof(key), "C19:to_str-fails:v%d", ip->ver == LRTR_IPV4 ? 4 : 6);
		viol("C19", key, "lrtr_ip_addr_to_str failed (rc=%d) with len=%u", rc, need);
		return;
	}
	CNT("c19/roundtrips");
	/* texts of (nearly) maximal length are where an off-by-one in the length check shows: sweep all lengths */
	if (!full_len_sweep && strlen(txt) + 3 >= (ip->ver == LRTR_IPV4 ? 15u : 39u)) {
		char t2[80];

		CNT("c19/max_length_texts_swept");
		for (unsigned int len = 0; len <= 64; len++) {
			rc = to_str_exact(ip, len, t2, sizeof(t2));
			if (len >= need && rc != 0)
				viol("C19", "C19:to_str-fails:long-text", "lrtr_ip_addr_to_str failed (rc=%d) with sufficient len=%u", rc, len);
		}
	}
	/* library parses its own text back */
	rc = parse_det(txt, &back, "to_str");
	if (rc != 0 || !ip_same(&back, ip)) {
		snprintf(key, sizeof(key), "C19:roundtrip-lib:v%d", ip->ver == LRTR_IPV4 ? 4 : 6);
		viol("C19", key, "to_str gave \"%s\"; lrtr_ip_str_to_addr rc=%d result %08x:%08x:%08x:%08x", txt, rc,
		     back.u.addr6.addr[0], back.u.addr6.addr[1], back.u.addr6.addr[2], back.u.addr6.addr[3]);
	}
	/* the platform parses it back */
	if (ip->ver == LRTR_IPV4) {
		uint32_t a = ip->u.addr4.addr;

		if (inet_pton(AF_INET, txt, b) != 1 ||
		    (((uint32_t)b[0] << 24) | (b[1] << 16) | (b[2] << 8) | b[3]) != a)
			viol("C19", "C19:roundtrip-pton:v4", "to_str gave \"%s\" for %08x; inet_pton disagrees", txt, a);
		snprintf(ref, sizeof(ref), "%u.%u.%u.%u", a >> 24, (a >> 16) & 255, (a >> 8) & 255, a & 255);
		if (strcmp(ref, txt) != 0)
			CNT("c19/v4_text_differs_from_dotted_quad_info");
	} else {
		uint8_t want[16];

		v6_to_bytes(ip, want);
		if (inet_pton(AF_INET6, txt, b) != 1 || memcmp(b, want, 16) != 0)
			viol("C19", "C19:roundtrip-pton:v6", "to_str gave \"%s\"; inet_pton rejects it or yields another address", txt);
		inet_ntop(AF_INET6, want, ref, sizeof(ref));
		if (strcmp(ref, txt) == 0)
			CNT("c19/v6_text_equals_inet_ntop_info");
		else
			CNT("c19/v6_text_differs_from_inet_ntop_info");
	}
	if (want_sample()) {
		sample("{\"addr\":\"%08x:%08x:%08x:%08x\",\"ver\":%d,\"to_str\":\"%s\"}", ip->u.addr6.addr[0],
		       ip->ver == LRTR_IPV4 ? 0 : ip->u.addr6.addr[1], ip->ver == LRTR_IPV4 ? 0 : ip->u.addr6.addr[2],
		       ip->ver == LRTR_IPV4 ? 0 : ip->u.addr6.addr[3], ip->ver == LRTR_IPV4 ? 4 : 6, txt);
	}
}

/* ------------------------------------------------------------------ ip4 */
static const uint8_t OCT[] = {0, 1, 2, 9, 10, 99, 100, 127, 128, 199, 254, 255};
#define NOCT 12

static void run_ip4_case(struct rng *r, long c, long stride)
{
	for (int i = 0; i < 512; i++) {
		struct lrtr_ip_addr ip;
		uint32_t a;
		int kind = i % 3;

		memset(&ip, 0, sizeof(ip));
		ip.ver = LRTR_IPV4;
		if (kind == 0) {
			/* boundary-octet grid: walk it deterministically, 12^4 combos */
			uint32_t g = (uint32_t)((c * 171 + i / 3) % (NOCT * NOCT * NOCT * NOCT));

			a = ((uint32_t)OCT[g % NOCT] << 24) | (OCT[(g / NOCT) % NOCT] << 16) |
			    (OCT[(g / NOCT / NOCT) % NOCT] << 8) | OCT[(g / NOCT / NOCT / NOCT) % NOCT];
			CNT("c19/v4_grid");
		} else if (kind == 1) {
			a = rnd32(r);
			CNT("c19/v4_random");
		} else {
			a = (uint32_t)(((uint64_t)c * 171 + i / 3) * (uint64_t)stride);
			CNT("c19/v4_stride");
		}
		ip.u.addr4.addr = a;
		check_roundtrip(&ip, (i % 64) == 0);
		nontrivial(hmix(4, a));
	}
}

/* ------------------------------------------------------------------ ip6 */
static const uint16_t GV[] = {0x1, 0xf, 0x10, 0xff, 0x100, 0xfff, 0x1000, 0xffff, 0x8000, 0xabcd};
#define NGV 10

static void gen_v6(struct rng *r, unsigned int pattern, uint16_t w[8])
{
	for (int g = 0; g < 8; g++) {
		if (pattern & (1u << (7 - g))) {
			uint32_t k = rndn(r, NGV + 2);

			w[g] = k < NGV ? GV[k] : (uint16_t)(rnd32(r) | 1);
		} else {
			w[g] = 0;
		}
	}
}

static void words_to_ip(const uint16_t w[8], struct lrtr_ip_addr *ip)
{
	memset(ip, 0, sizeof(*ip));
	ip->ver = LRTR_IPV6;
	for (int i = 0; i < 4; i++)
		ip->u.addr6.addr[i] = ((uint32_t)w[2 * i] << 16) | w[2 * i + 1];
}

static void run_ip6_case(struct rng *r, long c)
{
	unsigned int pattern = (unsigned int)(c % 256);

	for (int i = 0; i < 48; i++) {
		uint16_t w[8];
		struct lrtr_ip_addr ip;

		gen_v6(r, pattern, w);
		if (pattern == 0xff && i % 2 == 1)
			for (int g = 0; g < 8; g++)
				w[g] |= 0x1000; /* every group needs four hex digits: the longest possible text */
		if (i % 8 == 7) {
			/* embedded-IPv4 shapes: ::a.b.c.d and ::ffff:a.b.c.d */
			memset(w, 0, sizeof(w));
			if (i % 16 == 15)
				w[5] = 0xffff;
			w[6] = (uint16_t)rnd32(r);
			w[7] = (uint16_t)rnd32(r);
			if (rndp(r, 1, 4))
				w[6] = 0;
			CNT("c19/v6_embedded_v4_shapes");
		}
		words_to_ip(w, &ip);
		check_roundtrip(&ip, i == 0);
		CNT("c19/v6_addresses");
		nontrivial(hbytes(6, w, sizeof(w)));
	}
	cntf(1, "c19/v6_zero_pattern_seen/%02x", pattern);
}

/* ------------------------------------------------------------------ ipstr */
static void spell_v6(const uint16_t w[8], int dbl_at, int dbl_len, int style, int v4tail, char *out)
{
	/* style: 0 lower minimal, 1 upper, 2 zero-padded lower, 3 zero-padded upper */
	int n = v4tail ? 6 : 8;
	char *p = out;
	bool need_colon = false;

	for (int g = 0; g < n; g++) {
		if (g == dbl_at) {
			*p++ = ':';
			*p++ = ':';
			g += dbl_len - 1;
			need_colon = false;
			continue;
		}
		if (need_colon)
			*p++ = ':';
		p += sprintf(p, style == 0 ? "%x" : style == 1 ? "%X" : style == 2 ? "%04x" : "%04X", w[g]);
		need_colon = true;
	}
	if (v4tail) {
		if (need_colon)
			*p++ = ':';
		p += sprintf(p, "%u.%u.%u.%u", w[6] >> 8, w[6] & 255, w[7] >> 8, w[7] & 255);
	}
	*p = 0;
}

static const char MUTCH[] = "0123456789abcdefABCDEF:.gGxX /%-+";

static void derive_and_judge(struct rng *r, const char *base, const char *origin)
{
	char s[128];
	size_t n = strlen(base);

	judge_string(base, origin);
	/* every truncation */
	for (size_t k = 0; k < n; k++) {
		memcpy(s, base, k);
		s[k] = 0;
		judge_string(s, "truncation");
	}
	/* single-character substitutions, insertions, deletions */
	for (int m = 0; m < 10 && n > 0; m++) {
		size_t pos = rndn(r, (uint32_t)n);
		char ch = MUTCH[rndn(r, sizeof(MUTCH) - 1)];

		strcpy(s, base);
		s[pos] = ch;
		judge_string(s, "substitution");
		memcpy(s, base, pos);
		s[pos] = ch;
		strcpy(s + pos + 1, base + pos);
		judge_string(s, "insertion");
		memcpy(s, base, pos);
		strcpy(s + pos, base + pos + 1);
		judge_string(s, "deletion");
	}
}

/* several threads convert at the same time, each its own addresses into its own buffers: the conversions share nothing
 * a caller can see, so every text must parse back (inet_pton and library) to the address it was made from */
struct ipmt_thr {
	pthread_t th;
	struct rng r;
	long rounds, wrong;
	char first[160];
};

static void *ipmt_thread(void *arg)
{
	struct ipmt_thr *t = arg;
	struct lrtr_ip_addr mine[8];

	for (int i = 0; i < 8; i++) {
		if (i % 4 == 3) {
			mine[i].ver = LRTR_IPV4;
			mine[i].u.addr4.addr = rnd32(&t->r);
		} else {
			uint16_t w[8];

			gen_v6(&t->r, (unsigned int)rndn(&t->r, 256), w);
			words_to_ip(w, &mine[i]);
		}
	}
	for (long k = 0; k < 60000; k++) {
		const struct lrtr_ip_addr *ip = &mine[k % 8];
		struct lrtr_ip_addr back;
		char txt[INET6_ADDRSTRLEN + 4];
		uint8_t raw[16];
		bool ok;

		memset(txt, 0x5a, sizeof(txt));
		t->rounds++;
		if (lrtr_ip_addr_to_str(ip, txt, INET6_ADDRSTRLEN) != 0) {
			ok = false;
			snprintf(txt, sizeof(txt), "(failed)");
		} else if (ip->ver == LRTR_IPV4) {
			ok = inet_pton(AF_INET, txt, raw) == 1 && ntohl(*(uint32_t *)(void *)raw) == ip->u.addr4.addr;
		} else {
			struct lrtr_ip_addr ref;

			ok = inet_pton(AF_INET6, txt, raw) == 1;
			if (ok) {
				v6_from_bytes(raw, &ref);
				ok = ip_same(&ref, ip);
			}
		}
		if (ok)
			ok = lrtr_ip_str_to_addr(txt, &back) == 0 && ip_same(&back, ip);
		if (!ok) {
			if (!t->wrong) {
				txt[sizeof(txt) - 1] = 0;
				snprintf(t->first, sizeof(t->first), "%.48s", txt);
			}
			t->wrong++;
		}
	}
	return NULL;
}

static void run_ipmt_case(struct rng *r, long c)
{
	struct ipmt_thr t[4];
	long wrong = 0, rounds = 0;

	memset(t, 0, sizeof(t));
	for (int i = 0; i < 4; i++) {
		t[i].r.s = rnd64(r);
		pthread_create(&t[i].th, NULL, ipmt_thread, &t[i]);
	}
	for (int i = 0; i < 4; i++) {
		pthread_join(t[i].th, NULL);
		wrong += t[i].wrong;
		rounds += t[i].rounds;
	}
	cnt_add("c19/concurrent_roundtrips", (uint64_t)rounds);
	if (wrong) {
		int w = 0;

		while (w < 3 && !t[w].wrong)
			w++;
		viol("C19", "C19:roundtrip-wrong-under-concurrent-conversions", "%ld of %ld round trips made by 4 threads at the same time failed (first text: \"%s\")", wrong, rounds,
		     t[w].first);
	}
	nontrivial(hmix(0x19, (uint64_t)c));
}

static void run_ipstr_case(struct rng *r, long c)
{
	char s[128];

	if (c % 4 == 0) {
		/* IPv4 texts */
		uint32_t a = rndp(r, 1, 2) ? rnd32(r)
					   : (((uint32_t)OCT[rndn(r, NOCT)] << 24) | (OCT[rndn(r, NOCT)] << 16) |
					      (OCT[rndn(r, NOCT)] << 8) | OCT[rndn(r, NOCT)]);
		snprintf(s, sizeof(s), "%u.%u.%u.%u", a >> 24, (a >> 16) & 255, (a >> 8) & 255, a & 255);
		derive_and_judge(r, s, "v4-dotted");
		snprintf(s, sizeof(s), "%03u.%u.%02u.%u", a >> 24, (a >> 16) & 255, (a >> 8) & 255, a & 255);
		judge_string(s, "v4-leading-zeros");
		return;
	}
	uint16_t w[8];
	unsigned int pattern = (unsigned int)((c * 2654435761u) >> 8) % 256;
	uint8_t b[16];
	struct lrtr_ip_addr ip;

	gen_v6(r, pattern, w);
	if (c % 16 == 5) {
		memset(w, 0, 12);
		w[5] = rndp(r, 1, 2) ? 0xffff : 0;
	}
	words_to_ip(w, &ip);
	v6_to_bytes(&ip, b);
	inet_ntop(AF_INET6, b, s, sizeof(s));
	derive_and_judge(r, s, "inet_ntop");
	if (lrtr_ip_addr_to_str(&ip, s, sizeof(s)) == 0)
		derive_and_judge(r, s, "lib-to_str");
	/* alternative spellings: full form in 4 styles */
	for (int st = 0; st < 4; st++) {
		spell_v6(w, -1, 0, st, 0, s);
		if (st == 0)
			derive_and_judge(r, s, "full-form");
		else
			judge_string(s, "full-form-styled");
		spell_v6(w, -1, 0, st, 1, s);
		judge_string(s, "full-form-v4tail");
	}
	/* "::" at every position over every zero run (incl. runs of length 1) */
	for (int at = 0; at < 8; at++) {
		for (int len = 1; at + len <= 8; len++) {
			bool allzero = true;

			for (int g = at; g < at + len; g++)
				allzero &= w[g] == 0;
			if (!allzero)
				break;
			spell_v6(w, at, len, (int)rndn(r, 4), 0, s);
			judge_string(s, "compressed");
			if (at + len <= 6) {
				spell_v6(w, at, len, (int)rndn(r, 4), 1, s);
				if (rndp(r, 1, 4))
					derive_and_judge(r, s, "compressed-v4tail");
				else
					judge_string(s, "compressed-v4tail");
			}
		}
	}
}

int main(int argc, char **argv)
{
	if (argc < 6) {
		fprintf(stderr, "usage: %s mode seed from to outfile\n", argv[0]);
		return 2;
	}
	const char *mode = argv[1];
	uint64_t seed = strtoull(argv[2], NULL, 0);
	long from = atol(argv[3]), to = atol(argv[4]);
	long stride = argkv_l(argc, argv, "stride", 65537);

	vo_open(argv[5]);
	for (long c = from; c < to; c++) {
		struct rng r;

		vo_case(c);
		rng_seed(&r, seed, (uint64_t)c);
		if (!strcmp(mode, "enum"))
			run_enum_case(c);
		else if (!strcmp(mode, "enumheld"))
			run_enumheld_case(c);
		else if (!strcmp(mode, "ipmt"))
			run_ipmt_case(&r, c);
		else if (!strcmp(mode, "ip4"))
			run_ip4_case(&r, c, stride);
		else if (!strcmp(mode, "ip6"))
			run_ip6_case(&r, c);
		else if (!strcmp(mode, "ipstr"))
			run_ipstr_case(&r, c);
		else
			return 2;
	}
	vo_close();
	return 0;
}
