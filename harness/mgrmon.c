/* mgrmon engine (C15): the real rtr_mgr with 1-3 groups x 1-2 sockets; every socket is a real FSM thread
 * over its own scripted cache (sim) on a shared virtual clock.  All transport calls and wrapped sleeps
 * pass a token gate: exactly one FSM thread runs between two gates and the harness picks which (seeded),
 * so socket-state interleavings are chosen by the harness and replayable instead of left to the OS.
 *   cfg    direct calls: init / add_group / remove_group / for_each_group / get_first_group
 *   fail   failover scenarios with a trace monitor on status_fp, rtr_start, rtr_stop
 */
#include "sim_int.h"

#include "rtrlib/rtr_mgr_private.h"

VCOMMON_GLOBALS

/* ================================================================== configuration checks */
static struct tr_socket DUMMY_TR;
static void noop_free(struct tr_socket *t)
{
	(void)t;
}
static void noop_close(void *s)
{
	(void)s;
}
static int failing_open(void *s)
{
	int old;

	(void)s;
	/* The configuration checks are single-threaded on purpose: rtr_mgr_add_group / rtr_mgr_remove_group start
	 * the best group when it is closed, and a fail-over callback running concurrently with the next
	 * remove_group call is a race inside the library that no property speaks about.  So a started socket
	 * never gets past its connect: it waits here, cancellable, until rtr_mgr_stop() ends it. */
	pthread_setcancelstate(PTHREAD_CANCEL_ENABLE, &old);
	for (;;) {
		struct timespec ts = {0, 2000000};

		pthread_testcancel();
		nanosleep(&ts, NULL);
	}
	return TR_ERROR;
}

struct gctx {
	int n;
	uint8_t pref[16];
};
static void collect_group(const struct rtr_mgr_group *g, void *d)
{
	struct gctx *c = d;

	if (c->n < 16)
		c->pref[c->n++] = g->preference;
}

static void check_order(struct rtr_mgr_config *conf, const char *where, int expect_n)
{
	struct gctx c = {0};
	char key[128];

	rtr_mgr_for_each_group(conf, collect_group, &c);
	CNT("c15/order_checks");
	for (int i = 1; i < c.n; i++) {
		if (c.pref[i - 1] >= c.pref[i]) {
			snprintf(key, sizeof(key), "C15:groups-not-ascending:%s", where);
			viol("C15", key, "rtr_mgr_for_each_group after %s yields preference %u before %u", where, c.pref[i - 1], c.pref[i]);
			return;
		}
	}
	if (expect_n >= 0 && c.n != expect_n) {
		snprintf(key, sizeof(key), "C15:group-count:%s", where);
		viol("C15", key, "after %s the manager presents %d groups, expected %d", where, c.n, expect_n);
	}
	if (c.n && rtr_mgr_get_first_group(conf)->preference != c.pref[0]) {
		snprintf(key, sizeof(key), "C15:first-group-not-head:%s", where);
		viol("C15", key, "rtr_mgr_get_first_group has preference %u, the enumeration starts with %u", rtr_mgr_get_first_group(conf)->preference, c.pref[0]);
	}
}

static void run_cfg_case(struct rng *r, long c)
{
	struct rtr_socket socks[8];
	struct rtr_socket *sp[8][2];
	struct rtr_mgr_group groups[4];
	struct rtr_mgr_config *conf = (void *)0x1;
	int ng = 1 + (int)rndn(r, 4);
	int kind = (int)(c % 6);
	int rc;
	char key[128];

	memset(socks, 0, sizeof(socks));
	DUMMY_TR.free_fp = noop_free;
	DUMMY_TR.close_fp = noop_close;
	DUMMY_TR.open_fp = failing_open;
	for (int i = 0; i < 8; i++)
		socks[i].tr_socket = &DUMMY_TR;
	for (int g = 0; g < 4; g++) {
		sp[g][0] = &socks[2 * g];
		sp[g][1] = &socks[2 * g + 1];
		groups[g].sockets = sp[g];
		groups[g].sockets_len = 1 + rndn(r, 2);
		groups[g].status = RTR_MGR_CLOSED;
	}
	/* distinct preferences in random order */
	{
		uint8_t pool[8] = {1, 2, 7, 9, 50, 200, 254, 255};

		for (int i = 7; i > 0; i--) {
			int j = (int)rndn(r, (uint32_t)i + 1);
			uint8_t t = pool[i];

			pool[i] = pool[j];
			pool[j] = t;
		}
		for (int g = 0; g < 4; g++)
			groups[g].preference = pool[g];
	}
	cntf(1, "c15/cfg_kind/%d", kind);
	if (kind == 0) {
		rc = rtr_mgr_init(&conf, groups, 0, 30, 600, 600, NULL, NULL, NULL, NULL);
		if (rc == RTR_SUCCESS || conf != NULL)
			viol("C15", "C15:init-accepts-empty-group-list", "rtr_mgr_init with 0 groups returned %d, *config_out %s NULL", rc, conf ? "is not" : "is");
		nontrivial(hmix(15, (uint64_t)kind));
		return;
	}
	if (kind == 1) {
		int victim = (int)rndn(r, (uint32_t)ng);

		groups[victim].sockets_len = 0;
		rc = rtr_mgr_init(&conf, groups, (unsigned int)ng, 30, 600, 600, NULL, NULL, NULL, NULL);
		if (rc == RTR_SUCCESS || conf != NULL) {
			viol("C15", "C15:init-accepts-group-without-sockets", "rtr_mgr_init with a socket-less group (%d of %d) returned %d", victim, ng, rc);
			if (rc == RTR_SUCCESS && conf)
				rtr_mgr_free(conf);
		}
		nontrivial(hmix(hmix(15, (uint64_t)kind), (uint64_t)victim * 8 + ng));
		return;
	}
	if (kind == 2) {
		int a, b;

		if (ng < 2)
			ng = 2;
		a = (int)rndn(r, (uint32_t)ng);
		do {
			b = (int)rndn(r, (uint32_t)ng);
		} while (b == a);
		groups[b].preference = groups[a].preference;
		rc = rtr_mgr_init(&conf, groups, (unsigned int)ng, 30, 600, 600, NULL, NULL, NULL, NULL);
		if (rc == RTR_SUCCESS || conf != NULL) {
			snprintf(key, sizeof(key), "C15:init-accepts-duplicate-preference");
			viol("C15", key, "rtr_mgr_init with two groups of preference %u (positions %d,%d of %d) returned %d", groups[a].preference, a, b, ng, rc);
			if (rc == RTR_SUCCESS && conf)
				rtr_mgr_free(conf);
		}
		nontrivial(hmix(hmix(15, (uint64_t)kind), (uint64_t)a * 64 + b * 8 + ng));
		return;
	}
	/* kinds 3..5: a valid manager, then add / remove sequences (sockets are never started: no FSM threads) */
	if (ng > 3)
		ng = 3;
	rc = rtr_mgr_init(&conf, groups, (unsigned int)ng, 30, 600, 600, NULL, NULL, NULL, NULL);
	if (rc != RTR_SUCCESS || !conf) {
		viol("C15", "C15:init-rejects-valid-config", "rtr_mgr_init with %d valid groups returned %d", ng, rc);
		return;
	}
	check_order(conf, "init", ng);
	{
		int cur = ng;
		int nextra = 0;
		uint8_t have[8];
		uint64_t hh = 0;

		{
			struct gctx gc = {0};

			rtr_mgr_for_each_group(conf, collect_group, &gc);
			memcpy(have, gc.pref, sizeof(have));
		}
		/* removing down to one group, the last one must stay */
		for (int step = 0; step < 8; step++) {
			uint32_t op = rndn(r, 3);

			if (op == 0 && cur >= 1) {
				/* remove an existing group */
				uint8_t p = have[rndn(r, (uint32_t)cur)];

				rc = rtr_mgr_remove_group(conf, p);
				CNT("c15/remove_group_calls");
				if (cur == 1) {
					CNT("c15/remove_last_group_attempts");
					if (rc == RTR_SUCCESS) {
						viol("C15", "C15:last-group-removed", "rtr_mgr_remove_group removed the last remaining group");
						return; /* the manager is empty now: nothing further can be asked of it */
					}
				} else if (rc != RTR_SUCCESS) {
					viol("C15", "C15:remove-existing-group-failed", "rtr_mgr_remove_group(%u) returned %d with %d groups", p, rc, cur);
				} else {
					int w = 0;

					for (int i = 0; i < cur; i++)
						if (have[i] != p)
							have[w++] = have[i];
					cur = w;
				}
				hh = hmix(hh, 100 + p);
			} else if (op == 1) {
				/* remove a preference that is not there */
				rc = rtr_mgr_remove_group(conf, 251);
				if (rc == RTR_SUCCESS)
					viol("C15", "C15:remove-absent-group-succeeds", "rtr_mgr_remove_group(251) succeeded although no such group exists");
				hh = hmix(hh, 251);
			} else {
				/* add: an unused preference must be accepted (unless the slots are exhausted), a used one refused.
				 * NB rtr_mgr_add_group starts the best group if it is closed: give it sockets that never connect. */
				static struct rtr_socket extra[8];
				static struct rtr_socket *extrap[8][1];
				struct rtr_mgr_group ng2;
				bool dup = cur > 0 && rndp(r, 1, 2);
				uint8_t p = dup ? have[rndn(r, (uint32_t)cur)] : (uint8_t)(3 + 29 * step + rndn(r, 5)); /* lands between, before or after the existing ones */

				for (int q = 0; q < cur && !dup; q++)
					if (have[q] == p)
						dup = true;

				if (nextra >= 8)
					continue;
				memset(&extra[nextra], 0, sizeof(extra[0]));
				extra[nextra].tr_socket = &DUMMY_TR;
				extrap[nextra][0] = &extra[nextra];
				ng2.sockets = extrap[nextra];
				ng2.sockets_len = 1;
				ng2.preference = p;
				ng2.status = RTR_MGR_CLOSED;
				CNT("c15/add_group_calls");
				if (dup) {
					rc = rtr_mgr_add_group(conf, &ng2);
					CNT("c15/add_group_duplicate_preference");
					if (rc != RTR_INVALID_PARAM) {
						snprintf(key, sizeof(key), "C15:add-group-duplicate-preference:rc%d", rc);
						viol("C15", key, "rtr_mgr_add_group with the used preference %u returned %d, expected RTR_INVALID_PARAM", p, rc);
						if (rc == RTR_SUCCESS)
							nextra++;
					}
				}
				else if (cur < 7 && rndp(r, 1, 4)) {
					/* an add that gets past the duplicate check and fails further down: the new group's sockets are
					 * initialised with the intervals of a socket the manager already has - put a value there that
					 * rtr_init() must refuse (a cache can do the same through End of Data in accept-any mode).  The
					 * manager must be exactly what it was before, in particular its last group stays unremovable. */
					unsigned int keep[8];

					for (int i = 0; i < 8; i++) {
						keep[i] = socks[i].refresh_interval;
						socks[i].refresh_interval = 100000; /* above the maximum of 86400 */
					}
					for (int i = 0; i < nextra; i++)
						extra[i].refresh_interval = 100000;
					rc = rtr_mgr_add_group(conf, &ng2);
					for (int i = 0; i < 8; i++)
						socks[i].refresh_interval = keep[i];
					for (int i = 0; i < nextra; i++)
						extra[i].refresh_interval = 3600;
					CNT("c15/add_group_failing_after_the_duplicate_check");
					if (rc == RTR_SUCCESS) {
						/* accepted after all (the library may take its intervals from elsewhere): a regular add then */
						have[cur++] = p;
						nextra++;
					} else {
						CNT("c15/add_group_refused_after_the_duplicate_check");
					}
				}
				else if (cur < 7) {
					/* a fresh preference must be accepted and sorted in (its sockets block in their connect) */
					rc = rtr_mgr_add_group(conf, &ng2);
					CNT("c15/add_group_fresh_preference");
					if (rc != RTR_SUCCESS) {
						snprintf(key, sizeof(key), "C15:add-group-fresh-preference-refused:rc%d", rc);
						viol("C15", key, "rtr_mgr_add_group with the unused preference %u returned %d", p, rc);
					} else {
						have[cur++] = p;
						nextra++;
					}
				}
				hh = hmix(hh, 200 + p);
			}
			check_order(conf, "add/remove", cur);
		}
		nontrivial(hmix(hh, (uint64_t)ng));
	}
	rtr_mgr_stop(conf);
	rtr_mgr_free(conf);
}

/* ================================================================== failover scenarios */
#define MAXS 8
#define MAXG 4

struct msock {
	struct sim sim;
	struct rtr_socket sock;
	int idx, group;
	volatile bool started; /* rtr_start seen, no rtr_stop since */
	volatile bool synced; /* reached ESTABLISHED since it was started */
	volatile bool ungated;
	volatile bool waiting;
	/* deferred checks: evaluated at this thread's next gate */
	int chk_est_pref; /* >= 0: a group of this preference was reported ESTABLISHED from this thread */
	int chk_err_target; /* >= 0: group index whose sockets must have been started */
	unsigned long chk_err_epoch;
};

struct mgroup {
	struct rtr_socket *ptrs[2];
	int sidx[2];
	int ns;
	uint8_t pref;
	int reported; /* last status reported through status_fp, -1 = never */
	unsigned long start_epoch; /* bumped whenever one of its sockets is started */
};

static struct msock MS[MAXS];
static struct mgroup MG[MAXG];
static int NS, NG;
static struct universe MU;
static pthread_mutex_t GM = PTHREAD_MUTEX_INITIALIZER;
static pthread_cond_t GC = PTHREAD_COND_INITIALIZER;
static volatile int TOKEN;
static volatile bool FINISHING;
static volatile bool WANT_PAUSE; /* the driver wants every thread at its gate (dynamic reconfiguration) */
static volatile long STEPS;
static long BUDGET;
static struct rng GRNG;
static uint64_t TRACE_H;
static unsigned long EPOCH_CTR;

static struct msock *ms_of_sock(const struct rtr_socket *s)
{
	for (int i = 0; i < NS; i++)
		if (&MS[i].sock == s)
			return &MS[i];
	return NULL;
}

static int group_of_pref(uint8_t pref)
{
	for (int g = 0; g < NG; g++)
		if (MG[g].pref == pref)
			return g;
	return -1;
}

static void trace(const char *what, int a, int b)
{
	TRACE_H = hmix(TRACE_H, hbytes((uint64_t)a * 131 + (uint64_t)b, what, strlen(what)));
}

static void deferred_checks(struct msock *m)
{
	char key[160];

	if (FINISHING)
		return;
	if (m->chk_est_pref >= 0) {
		/* (b) when a group is reported ESTABLISHED every less-preferred group is shut down and reported CLOSED */
		for (int g = 0; g < NG; g++) {
			if (MG[g].pref <= (uint8_t)m->chk_est_pref)
				continue;
			bool any_started = false;

			for (int k = 0; k < MG[g].ns; k++)
				any_started |= MS[MG[g].sidx[k]].started;
			CNT("c15/rule_b_checks");
			if (any_started || (MG[g].reported != RTR_MGR_CLOSED && MG[g].reported != -1)) {
				snprintf(key, sizeof(key), "C15:less-preferred-group-not-closed:started%d-reported%d", any_started, MG[g].reported);
				viol("C15", key, "group with preference %d became ESTABLISHED; the less preferred group %u still has running sockets (%d) / was last reported as status %d",
				     m->chk_est_pref, MG[g].pref, any_started, MG[g].reported);
			}
		}
		m->chk_est_pref = -1;
	}
	if (m->chk_err_target >= 0) {
		/* (d) a group entered ERROR while none was ESTABLISHED: the most preferred closed group is started */
		struct mgroup *t = &MG[m->chk_err_target];

		CNT("c15/rule_d_checks");
		if (t->start_epoch <= m->chk_err_epoch) {
			snprintf(key, sizeof(key), "C15:closed-group-not-started-on-error");
			viol("C15", key, "a group entered ERROR while no group was ESTABLISHED, but the most preferred closed group (preference %u) was not started", t->pref);
		}
		m->chk_err_target = -1;
	}
}

static void gate_unlock(void *p)
{
	(void)p;
	pthread_mutex_unlock(&GM);
}

static void pick_next_locked(void)
{
	int cand[MAXS], n = 0;

	for (int i = 0; i < NS; i++)
		if (MS[i].waiting && !MS[i].ungated)
			cand[n++] = i;
	if (FINISHING)
		TOKEN = -3; /* draining: everybody stays at the gate until the driver stops it */
	else if (WANT_PAUSE)
		TOKEN = -2;
	else
		TOKEN = n ? cand[rndn(&GRNG, (uint32_t)n)] : -1;
	pthread_cond_broadcast(&GC);
}

static void gate(struct sim *s, int cancel_enabled)
{
	struct msock *m = s->owner;

	if (!m)
		return;
	if (m->ungated) {
		if (cancel_enabled)
			pthread_testcancel();
		return;
	}
	pthread_mutex_lock(&GM);
	deferred_checks(m);
	m->waiting = true;
	STEPS++;
	if (TOKEN == m->idx || TOKEN == -1)
		pick_next_locked(); /* TOKEN == -2 / -3: the gate is held shut by the driver */
	else
		pthread_cond_broadcast(&GC); /* the driver may be waiting for everybody to arrive */
	pthread_cleanup_push(gate_unlock, NULL);
	while (TOKEN != m->idx && !m->ungated) {
		/* a thread that is about to be stopped must not sit here with cancellation disabled: see __wrap_rtr_stop */
		pthread_cond_wait(&GC, &GM);
	}
	pthread_cleanup_pop(0);
	m->waiting = false;
	trace("run", m->idx, m->sock.state);
	pthread_mutex_unlock(&GM);
	if (cancel_enabled)
		pthread_testcancel();
}

/* ---- interposed library entry points (link-time wrap): the real functions do all the work */
int __real_rtr_start(struct rtr_socket *s);
void __real_rtr_stop(struct rtr_socket *s);
void __real_rtr_change_socket_state(struct rtr_socket *s, const enum rtr_socket_state st);
int __wrap_rtr_start(struct rtr_socket *s);
void __wrap_rtr_stop(struct rtr_socket *s);
void __wrap_rtr_change_socket_state(struct rtr_socket *s, const enum rtr_socket_state st);

int __wrap_rtr_start(struct rtr_socket *s)
{
	struct msock *m = ms_of_sock(s);
	int rc;

	if (m) {
		pthread_mutex_lock(&GM);
		m->ungated = false;
		m->synced = false;
		m->started = true;
		MG[m->group].start_epoch = ++EPOCH_CTR;
		trace("start", m->idx, 0);
		cntf(1, "c15/rtr_start/group%d", m->group);
		pthread_mutex_unlock(&GM);
	}
	rc = __real_rtr_start(s);
	return rc;
}

void __wrap_rtr_stop(struct rtr_socket *s)
{
	struct msock *m = ms_of_sock(s);
	struct sim *cs = CUR_SIM;
	struct msock *caller = cs ? cs->owner : NULL;
	char key[128];

	if (m && !FINISHING) {
		trace("stop", m->idx, caller ? caller->idx : -1);
		cntf(1, "c15/rtr_stop/group%d", m->group);
		/* (c) nobody is shut down on behalf of a less (or equally) preferred group */
		if (caller) {
			CNT("c15/rule_c_checks");
			if (MG[caller->group].pref >= MG[m->group].pref) {
				snprintf(key, sizeof(key), "C15:group-shut-down-by-less-preferred");
				viol("C15", key, "a socket of the group with preference %u was stopped from a callback of the group with preference %u (victim socket %d, caller socket %d, caller state %d, token %d)", MG[m->group].pref,
				     MG[caller->group].pref, m->idx, caller->idx, caller->sock.state, TOKEN);
			}
		}
	}
	/* the victim is let through its gate by __wrap_rtr_change_socket_state(RTR_SHUTDOWN), rtr_stop()'s first step */
	__real_rtr_stop(s);
	if (m) {
		pthread_mutex_lock(&GM);
		m->started = false;
		m->synced = false;
		m->waiting = false;
		if (TOKEN == m->idx)
			pick_next_locked();
		pthread_mutex_unlock(&GM);
	}
}

void __wrap_rtr_change_socket_state(struct rtr_socket *s, const enum rtr_socket_state st)
{
	struct msock *m = ms_of_sock(s);

	if (m && st == RTR_ESTABLISHED && s->state != RTR_ESTABLISHED)
		m->synced = true;
	if (m)
		trace("state", m->idx, (int)st);
	__real_rtr_change_socket_state(s, st);
	if (m && st == RTR_SHUTDOWN) {
		/* rtr_stop(): the manager's callback for SHUTDOWN has run on the stopping thread; cancel + join follow.  The
		 * victim may sit at the gate inside a call where cancellation is disabled: from here on it runs ungated to its
		 * next cancellation point (otherwise pthread_join() would never return), while the stopping thread does nothing
		 * but wait for it - so that still only one thread at a time touches the manager and the monitor state. */
		pthread_mutex_lock(&GM);
		m->ungated = true;
		pthread_cond_broadcast(&GC);
		pthread_mutex_unlock(&GM);
	}
}

static void status_cb(const struct rtr_mgr_group *group, enum rtr_mgr_status status, const struct rtr_socket *sock, void *data)
{
	int g = group_of_pref(group->preference);
	struct sim *cs = CUR_SIM;
	struct msock *caller = cs ? cs->owner : NULL;
	char key[160];

	(void)data;
	(void)sock;
	if (g < 0 || FINISHING)
		return;
	CNT("c15/status_callbacks");
	cntf(1, "c15/status_reported/%d", status);
	trace("status", g, (int)status);
	if (status == RTR_MGR_ESTABLISHED && MG[g].reported != RTR_MGR_ESTABLISHED) {
		/* (a) only when every socket of the group holds synchronised data */
		CNT("c15/rule_a_checks");
		for (int k = 0; k < MG[g].ns; k++) {
			struct msock *m = &MS[MG[g].sidx[k]];

			if (!m->synced || !m->started) {
				snprintf(key, sizeof(key), "C15:established-with-unsynchronised-socket");
				viol("C15", key, "group with preference %u reported ESTABLISHED while its socket #%d has %s", MG[g].pref, k,
				     m->started ? "not completed a synchronisation since it was started" : "not been started");
				break;
			}
		}
		if (caller)
			caller->chk_est_pref = MG[g].pref;
	}
	if (status == RTR_MGR_ERROR && MG[g].reported != RTR_MGR_ERROR && caller) {
		bool any_est = false;
		int target = -1;

		for (int i = 0; i < NG; i++)
			any_est |= MG[i].reported == RTR_MGR_ESTABLISHED && i != g;
		if (!any_est) {
			/* most preferred group that is still closed (never started or reported CLOSED, no running socket) */
			for (int i = 0; i < NG; i++) {
				bool running = false;

				if (i == g)
					continue;
				for (int k = 0; k < MG[i].ns; k++)
					running |= MS[MG[i].sidx[k]].started;
				if (!running && (MG[i].reported == -1 || MG[i].reported == RTR_MGR_CLOSED) && (target < 0 || MG[i].pref < MG[target].pref))
					target = i;
			}
			if (target >= 0) {
				caller->chk_err_target = target;
				caller->chk_err_epoch = EPOCH_CTR;
				CNT("c15/error_while_none_established");
			}
		}
	}
	MG[g].reported = (int)status;
}

static const char *BEHAV[] = {"sync-ok", "open-fails", "fatal-during-sync", "no-data", "timeout", "ok-then-fails"};

static void script_socket(struct simcfg *c, struct rng *r, int behaviour)
{
	memset(c, 0, sizeof(*c));
	c->refresh = 20 + rndn(r, 40);
	c->retry = 1 + rndn(r, 5);
	c->expire = 600;
	c->iv_mode = RTR_INTERVAL_MODE_IGNORE_ANY;
	c->chunk_rx = CH_MAX;
	/* half of the sockets take a PDU in several writes: another socket's thread can then run between two pieces */
	c->chunk_tx = rndp(r, 1, 2) ? CH_MAX : (int)rndn(r, 4);
	for (int q = 0; q < 8; q++)
		c->xplan[q].pos = -1;
	switch (behaviour) {
	case 1: /* the first 1..4 connection attempts fail */
		for (int i = 0; i < 1 + (int)rndn(r, 4); i++)
			c->tfault[c->ntfault++] = (struct tfault){1 + i, F_ERROR};
		break;
	case 2: /* Error Report (internal error) instead of data, for the first 1..3 queries */
		for (int q = 0; q < 1 + (int)rndn(r, 3); q++) {
			c->xplan[q].override = AO_ERR_REPORT;
			c->xplan[q].param = 1;
			c->xplan[q].ver_byte = 255;
		}
		c->nxplan = 4;
		break;
	case 3:
		for (int q = 0; q < 1 + (int)rndn(r, 3); q++) {
			c->xplan[q].override = AO_ERR_REPORT;
			c->xplan[q].param = 2;
			c->xplan[q].ver_byte = 255;
		}
		c->nxplan = 4;
		break;
	case 4:
		c->xplan[0].override = AO_SILENCE;
		c->nxplan = 1;
		break;
	case 5: /* success first, a fatal answer to a later poll, then success again */
		c->xplan[1 + rndn(r, 2)].override = AO_ERR_REPORT;
		c->xplan[1].param = c->xplan[2].param = 1;
		c->xplan[1].ver_byte = c->xplan[2].ver_byte = 255;
		c->nxplan = 4;
		break;
	default:
		break;
	}
}

static void make_socket(struct rng *r, int g, int k, char *desc, size_t desclen)
{
	struct msock *m = &MS[NS];
	struct simcfg cfg;
	int b = (int)rndn(r, 6);
	bset p, kk;

	script_socket(&cfg, r, b);
	memset(&m->sock, 0, sizeof(m->sock));
	sim_init(&m->sim, &MU, &cfg, rnd64(r));
	m->sim.monitors_off = true;
	m->sim.owner = m;
	m->sim.cache.session = (uint16_t)rnd32(r);
	m->sim.cache.serial = rndn(r, 1000);
	m->sim.cache.eod_refresh = cfg.refresh;
	m->sim.cache.eod_retry = cfg.retry;
	m->sim.cache.eod_expire = cfg.expire;
	bs_zero(&p);
	bs_zero(&kk);
	for (int i = 0; i < 5; i++)
		bs_set(&p, (int)rndn(r, (uint32_t)MU.np));
	sim_cache_push_dataset(&m->sim, &p, &kk);
	m->idx = NS;
	m->group = g;
	m->started = m->synced = m->ungated = m->waiting = false;
	m->chk_est_pref = -1;
	m->chk_err_target = -1;
	m->sock.tr_socket = &m->sim.tr;
	MG[g].ptrs[k] = &m->sock;
	MG[g].sidx[k] = NS;
	snprintf(desc + strlen(desc), desclen - strlen(desc), "%sg%u:%s", NS ? "," : "", MG[g].pref, BEHAV[b]);
	cntf(1, "c15/socket_behaviour/%s", BEHAV[b]);
	NS++;
}

static void run_fail_case(struct rng *r, long c)
{
	struct rtr_mgr_group groups[MAXG];
	struct rtr_mgr_config *conf = NULL;
	uint8_t prefs[3] = {10, 20, 30};
	char desc[256] = "";
	int rc;

	VNOW = 1000000;
	NG = 1 + (int)(c % 3);
	NS = 0;
	GRNG.s = rnd64(r);
	TOKEN = -2;
	FINISHING = false;
	WANT_PAUSE = false;
	STEPS = 0;
	TRACE_H = 0;
	EPOCH_CTR = 0;
	BUDGET = 400 + (long)rndn(r, 1200);
	long add_at = rndp(r, 1, 3) ? BUDGET / 3 + (long)rndn(r, (uint32_t)(BUDGET / 3)) : 0;
	universe_build(&MU, r, 24, 6);
	/* groups are handed to rtr_mgr_init in random order of preference */
	for (int i = 2; i > 0; i--) {
		int j = (int)rndn(r, (uint32_t)i + 1);
		uint8_t t = prefs[i];

		prefs[i] = prefs[j];
		prefs[j] = t;
	}
	for (int g = 0; g < NG; g++) {
		MG[g].ns = 1 + (int)rndn(r, 2);
		MG[g].pref = prefs[g];
		MG[g].reported = -1;
		MG[g].start_epoch = 0;
		for (int k = 0; k < MG[g].ns; k++)
			make_socket(r, g, k, desc, sizeof(desc));
		groups[g].sockets = MG[g].ptrs;
		groups[g].sockets_len = (unsigned int)MG[g].ns;
		groups[g].preference = MG[g].pref;
		groups[g].status = RTR_MGR_CLOSED;
	}
	SIM_GATE = gate;
	rc = rtr_mgr_init(&conf, groups, (unsigned int)NG, 30, 600, 5, NULL, NULL, status_cb, NULL);
	if (rc != RTR_SUCCESS || !conf) {
		viol("C15", "C15:init-rejects-valid-config", "rtr_mgr_init returned %d for %d valid groups", rc, NG);
		SIM_GATE = NULL;
		return;
	}
	for (int i = 0; i < NS; i++)
		sim_attach(&MS[i].sim, &MS[i].sock, conf->pfx_table, conf->spki_table);
	check_order(conf, "init", NG);
	{
		/* the manager must start the most preferred group */
		int best = 0;

		for (int g = 1; g < NG; g++)
			if (MG[g].pref < MG[best].pref)
				best = g;
		rtr_mgr_start(conf);
		CNT("c15/mgr_start_checks");
		for (int g = 0; g < NG; g++) {
			bool st = false;

			for (int k = 0; k < MG[g].ns; k++)
				st |= MS[MG[g].sidx[k]].started;
			if (st != (g == best))
				viol("C15", "C15:mgr-start-wrong-group", "rtr_mgr_start: group with preference %u is %s although the most preferred group is %u", MG[g].pref,
				     st ? "started" : "not started", MG[best].pref);
		}
	}
	/* open the gate */
	pthread_mutex_lock(&GM);
	TOKEN = -1;
	pick_next_locked();
	pthread_mutex_unlock(&GM);
	/* let the gated threads run until the step budget is used up (wall-clock watchdog as backstop) */
	{
		struct timespec t0, t1, ts = {0, 300000};
		bool watchdog = false;

		clock_gettime(CLOCK_MONOTONIC, &t0);
		while (STEPS < BUDGET) {
			nanosleep(&ts, NULL);
			clock_gettime(CLOCK_MONOTONIC, &t1);
			if (t1.tv_sec - t0.tv_sec > 20) {
				watchdog = true;
				break;
			}
			/* dynamic reconfiguration: half way through, one scenario in three gets a new group whose preference lies
			 * before, between or behind the existing ones.  Every thread is brought to its gate first. */
			if (add_at && STEPS >= add_at && NG < MAXG && NS + 2 <= MAXS) {
				struct rtr_mgr_group ng2;
				static const uint8_t NEWP[] = {5, 15, 25, 35};
				int g = NG, rc2;
				bool quiet = false;

				add_at = 0;
				pthread_mutex_lock(&GM);
				WANT_PAUSE = true;
				for (int spins = 0; spins < 5000 && !quiet; spins++) {
					struct timespec ts2;

					quiet = TOKEN == -2 || TOKEN == -1;
					for (int i = 0; i < NS; i++)
						if (MS[i].started && !MS[i].waiting)
							quiet = false;
					if (quiet)
						break;
					clock_gettime(CLOCK_REALTIME, &ts2);
					ts2.tv_nsec += 1000000;
					if (ts2.tv_nsec >= 1000000000) {
						ts2.tv_sec++;
						ts2.tv_nsec -= 1000000000;
					}
					pthread_cond_timedwait(&GC, &GM, &ts2);
				}
				if (quiet) {
					TOKEN = -2;
					MG[g].ns = 1 + (int)rndn(r, 2);
					MG[g].pref = NEWP[rndn(r, 4)];
					MG[g].reported = -1;
					MG[g].start_epoch = 0;
					for (int k = 0; k < MG[g].ns; k++)
						make_socket(r, g, k, desc, sizeof(desc));
					NG++;
					for (int k = 0; k < MG[g].ns; k++)
						sim_attach(&MS[MG[g].sidx[k]].sim, &MS[MG[g].sidx[k]].sock, conf->pfx_table, conf->spki_table);
					CNT("c15/groups_added_while_running");
					pthread_mutex_unlock(&GM);
					ng2.sockets = MG[g].ptrs;
					ng2.sockets_len = (unsigned int)MG[g].ns;
					ng2.preference = MG[g].pref;
					ng2.status = RTR_MGR_CLOSED;
					rc2 = rtr_mgr_add_group(conf, &ng2);
					/* threads the call started run up to their first gate; counters and verdicts are only touched under GM */
					pthread_mutex_lock(&GM);
					if (rc2 != RTR_SUCCESS)
						viol("C15", "C15:add-group-fresh-preference-refused:running", "rtr_mgr_add_group(preference %u) on a running manager returned %d", MG[g].pref, rc2);
					check_order(conf, "add-while-running", NG);
				}
				WANT_PAUSE = false;
				if (TOKEN == -2) {
					TOKEN = -1;
					pick_next_locked();
				}
				pthread_mutex_unlock(&GM);
			}
		}
		if (watchdog)
			CNT("c15/watchdog_fired_inconclusive");
	}
	/* drain: no thread gets the token any more; wait until every running thread has arrived at its next gate, so that
	 * the shutdown below never runs concurrently with a fail-over callback (rtr_mgr_stop racing with a callback that
	 * stops or starts the same sockets is outside the property) */
	pthread_mutex_lock(&GM);
	FINISHING = true;
	if (TOKEN == -1)
		TOKEN = -3;
	for (int spins = 0; spins < 20000; spins++) {
		bool quiet = true;
		struct timespec ts;

		for (int i = 0; i < NS; i++)
			if (MS[i].started && !MS[i].waiting)
				quiet = false;
		if (quiet && TOKEN == -3)
			break;
		clock_gettime(CLOCK_REALTIME, &ts);
		ts.tv_nsec += 1000000;
		if (ts.tv_nsec >= 1000000000) {
			ts.tv_sec++;
			ts.tv_nsec -= 1000000000;
		}
		pthread_cond_timedwait(&GC, &GM, &ts);
	}
	pthread_mutex_unlock(&GM);
	rtr_mgr_stop(conf);
	/* a fail-over callback that ran concurrently with rtr_mgr_stop may have started a group again: stop until quiet */
	for (int round = 0; round < 8; round++) {
		bool any = false;

		for (int i = 0; i < NS; i++) {
			if (MS[i].started || MS[i].sock.thread_id) {
				any = true;
				rtr_stop(&MS[i].sock);
			}
		}
		if (!any)
			break;
	}
	rtr_mgr_free(conf);
	SIM_GATE = NULL;
	for (int i = 0; i < NS; i++)
		sim_free(&MS[i].sim);
	cnt_add("c15/gate_steps", (uint64_t)STEPS);
	CNT("c15/scenarios");
	nontrivial(TRACE_H);
	if (want_sample())
		sample("{\"groups\":%d,\"sockets\":\"%s\",\"gate_steps\":%ld,\"trace_hash\":\"%016llx\"}", NG, desc, (long)STEPS, (unsigned long long)TRACE_H);
}

int main(int argc, char **argv)
{
	if (argc < 6) {
		fprintf(stderr, "usage: %s mode seed from to outfile\n", argv[0]);
		return 2;
	}
	const char *mode = argv[1];
	uint64_t seed = strtoull(argv[2], NULL, 0);
	long from = atol(argv[3]), to = atol(argv[4]);

	vo_open(argv[5]);
	for (long c = from; c < to; c++) {
		struct rng r;

		vo_case(c);
		rng_seed(&r, seed, (uint64_t)c);
		if (!strcmp(mode, "cfg"))
			run_cfg_case(&r, c);
		else if (!strcmp(mode, "fail"))
			run_fail_case(&r, c);
		else
			return 2;
	}
	vo_close();
	return 0;
}
