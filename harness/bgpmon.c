/* bgpmon engine: BGPsec path validation (C11) and signature generation (C12) judged by an independent
 * implementation of the RFC 8205 section 4.2 digest (plain arrays, no rtrlib structs or stream code)
 * and OpenSSL's EVP interface (the library itself uses the low-level ECDSA_* calls).
 *   validate   signed paths of 1..N hops x key-table variants x single-bit corruptions of every signed field
 *   sign       originations / forwardings through rtr_mgr_bgpsec_generate_signature, negative cases
 */
#include "vcommon.h"

#include "rtrlib/bgpsec/bgpsec_private.h"
#include "rtrlib/rtr_mgr_private.h"
#include "rtrlib/spki/hashtable/ht-spkitable_private.h"

#include <pthread.h>
#include <openssl/err.h>
#include <openssl/ec.h>
#include <openssl/ecdsa.h>
#include <openssl/evp.h>
#include <openssl/obj_mac.h>
#include <openssl/sha.h>
#include <openssl/x509.h>

VCOMMON_GLOBALS

#define NKEYS 24
#define MAXHOPS 96
#define PRIVLEN 121

struct kp {
	EVP_PKEY *pkey;
	uint8_t spki[SPKI_SIZE];
	uint8_t priv[PRIVLEN];
	uint8_t ski[SKI_SIZE];
};
static struct kp KEYS[NKEYS];

/* plain model of a BGPsec path: index 0 = most recently added hop */
struct hop {
	uint8_t pcount, flags;
	uint32_t asn;
	uint8_t ski[SKI_SIZE];
	uint8_t sig[80];
	uint16_t sig_len;
};
struct mpath {
	int n;
	struct hop h[MAXHOPS];
	uint32_t target_as;
	uint8_t alg, safi;
	uint16_t afi; /* hashed */
	uint16_t nlri_afi; /* checked for support */
	uint8_t nlri_len;
	uint8_t nlri[32];
};

struct mkeyent {
	uint32_t asn;
	uint8_t ski[SKI_SIZE];
	int key; /* index into KEYS */
};
struct mtable {
	int n;
	struct mkeyent e[3 * MAXHOPS];
};

static void make_keys(void)
{
	for (int i = 0; i < NKEYS; i++) {
		EVP_PKEY_CTX *ctx = EVP_PKEY_CTX_new_id(EVP_PKEY_EC, NULL);
		EVP_PKEY *pk = NULL;
		unsigned char *p;
		int n;

		EVP_PKEY_keygen_init(ctx);
		EVP_PKEY_CTX_set_ec_paramgen_curve_nid(ctx, NID_X9_62_prime256v1);
		EVP_PKEY_CTX_set_ec_param_enc(ctx, OPENSSL_EC_NAMED_CURVE);
		if (EVP_PKEY_keygen(ctx, &pk) != 1) {
			fprintf(stderr, "keygen failed\n");
			exit(2);
		}
		EVP_PKEY_CTX_free(ctx);
		KEYS[i].pkey = pk;
		p = KEYS[i].spki;
		n = i2d_PUBKEY(pk, NULL);
		if (n != SPKI_SIZE) {
			fprintf(stderr, "unexpected SPKI size %d\n", n);
			exit(2);
		}
		i2d_PUBKEY(pk, &p);
		{
			EC_KEY *ec = EVP_PKEY_get1_EC_KEY(pk);

			n = i2d_ECPrivateKey(ec, NULL);
			if (n != PRIVLEN) {
				fprintf(stderr, "unexpected private key size %d\n", n);
				exit(2);
			}
			p = KEYS[i].priv;
			i2d_ECPrivateKey(ec, &p);
			EC_KEY_free(ec);
		}
		SHA1(KEYS[i].spki, SPKI_SIZE, KEYS[i].ski);
	}
}

/* ---------------- independent RFC 8205 4.2 octet sequence for the signature of hop j */
static size_t digest_input(const struct mpath *m, int j, uint8_t *out)
{
	size_t o = 0;
	uint32_t target = j == 0 ? m->target_as : m->h[j - 1].asn;

	out[o++] = target >> 24;
	out[o++] = target >> 16;
	out[o++] = target >> 8;
	out[o++] = target;
	for (int k = j; k < m->n; k++) {
		if (k + 1 < m->n) {
			/* Signature Segment of the hop that forwarded to hop k */
			memcpy(out + o, m->h[k + 1].ski, SKI_SIZE);
			o += SKI_SIZE;
			out[o++] = m->h[k + 1].sig_len >> 8;
			out[o++] = (uint8_t)m->h[k + 1].sig_len;
			memcpy(out + o, m->h[k + 1].sig, m->h[k + 1].sig_len);
			o += m->h[k + 1].sig_len;
		}
		out[o++] = m->h[k].pcount;
		out[o++] = m->h[k].flags;
		out[o++] = m->h[k].asn >> 24;
		out[o++] = m->h[k].asn >> 16;
		out[o++] = m->h[k].asn >> 8;
		out[o++] = m->h[k].asn;
	}
	out[o++] = m->alg;
	out[o++] = m->afi >> 8;
	out[o++] = (uint8_t)m->afi;
	out[o++] = m->safi;
	out[o++] = m->nlri_len;
	memcpy(out + o, m->nlri, (m->nlri_len + 7) / 8);
	o += (m->nlri_len + 7) / 8;
	return o;
}

/* a sample of the tuples judged by EVP goes to <outfile>.p256 for the pure-Python second opinion (lib/p256.py) */
static FILE *P256F;
static long P256_BUDGET;
static const uint8_t *P256_SPKI; /* SPKI of the key being tried, set by the caller */

static void hexout(FILE *f, const uint8_t *b, size_t n)
{
	for (size_t i = 0; i < n; i++)
		fprintf(f, "%02x", b[i]);
}

static int evp_verify(EVP_PKEY *pk, const uint8_t *msg, size_t n, const uint8_t *sig, size_t sl)
{
	EVP_MD_CTX *c = EVP_MD_CTX_new();
	int rc;

	EVP_DigestVerifyInit(c, NULL, EVP_sha256(), NULL, pk);
	rc = EVP_DigestVerify(c, sig, sl, msg, n);
	EVP_MD_CTX_free(c);
	if (P256F && P256_BUDGET > 0 && P256_SPKI && sl > 0) {
		/* keep accepted and rejected tuples alike */
		static unsigned long seen;

		if ((seen++ % 97) == 0 || (rc == 1 && (seen % 11) == 0)) {
			P256_BUDGET--;
			hexout(P256F, msg, n);
			fputc(' ', P256F);
			hexout(P256F, P256_SPKI, SPKI_SIZE);
			fputc(' ', P256F);
			hexout(P256F, sig, sl);
			fprintf(P256F, " %d\n", rc == 1);
		}
	}
	return rc == 1;
}

static size_t evp_sign(EVP_PKEY *pk, const uint8_t *msg, size_t n, uint8_t *sig)
{
	EVP_MD_CTX *c = EVP_MD_CTX_new();
	size_t sl = 80;

	EVP_DigestSignInit(c, NULL, EVP_sha256(), NULL, pk);
	if (EVP_DigestSign(c, sig, &sl, msg, n) != 1)
		sl = 0;
	EVP_MD_CTX_free(c);
	return sl;
}

/* sign the model path hop by hop from the origin with the given keys */
static void model_sign(struct mpath *m, const int *keyidx)
{
	uint8_t buf[16384];

	for (int j = m->n - 1; j >= 0; j--) {
		size_t n = digest_input(m, j, buf);

		memcpy(m->h[j].ski, KEYS[keyidx[j]].ski, SKI_SIZE);
		m->h[j].sig_len = (uint16_t)evp_sign(KEYS[keyidx[j]].pkey, buf, n, m->h[j].sig);
	}
}

/* oracle: 1 = every hop verifies under a key registered for its SKI and its AS; also reports a missing SKI */
static int oracle_valid(const struct mpath *m, const struct mtable *t, bool *ski_missing)
{
	uint8_t buf[16384];
	bool all = true;

	*ski_missing = false;
	for (int j = 0; j < m->n; j++) {
		bool any_ski = false;

		for (int e = 0; e < t->n; e++)
			any_ski |= memcmp(t->e[e].ski, m->h[j].ski, SKI_SIZE) == 0;
		if (!any_ski)
			*ski_missing = true;
	}
	for (int j = 0; j < m->n && all; j++) {
		size_t n = digest_input(m, j, buf);
		bool ok = false;

		for (int e = 0; e < t->n && !ok; e++) {
			if (memcmp(t->e[e].ski, m->h[j].ski, SKI_SIZE) || t->e[e].asn != m->h[j].asn)
				continue;
			P256_SPKI = KEYS[t->e[e].key].spki;
			ok = evp_verify(KEYS[t->e[e].key].pkey, buf, n, m->h[j].sig, m->h[j].sig_len);
			P256_SPKI = NULL;
		}
		all &= ok;
	}
	return all;
}

/* ---------------- bridge into the library's structures */
static struct rtr_bgpsec *to_lib(const struct mpath *m, int nsigs)
{
	struct rtr_bgpsec_nlri *nl = rtr_mgr_bgpsec_nlri_new(32);
	struct rtr_bgpsec *b;

	nl->afi = m->nlri_afi;
	nl->safi = m->safi;
	nl->nlri_len = m->nlri_len;
	memcpy(nl->nlri, m->nlri, 32);
	/* my_as takes no part in RFC 8205's digest (the signer's AS is the one in its Secure_Path segment): under AS
	 * migration, local-as or a confederation it differs from the newest segment's AS, so every other path gets one
	 * that does */
	b = rtr_mgr_bgpsec_new(m->alg, m->safi, m->afi, ((m->target_as ^ m->nlri[0] ^ (uint32_t)m->n) & 1) ? m->h[0].asn : (m->target_as * 2654435761u) ^ m->h[0].asn ^ 0x5a5a,
			       m->target_as, nl);
	for (int j = 0; j < m->n; j++)
		rtr_mgr_bgpsec_append_sec_path_seg(b, rtr_mgr_bgpsec_new_secure_path_seg(m->h[j].pcount, m->h[j].flags, m->h[j].asn));
	/* the last nsigs hops (the older ones) carry signatures; for validation nsigs == n */
	for (int j = m->n - nsigs; j < m->n; j++) {
		struct rtr_signature_seg *s =
			rtr_mgr_bgpsec_new_signature_seg((uint8_t *)m->h[j].ski, m->h[j].sig_len, (uint8_t *)m->h[j].sig);

		if (rtr_mgr_bgpsec_append_sig_seg(b, s) != RTR_BGPSEC_SUCCESS) {
			rtr_mgr_bgpsec_free_signatures(s);
			break;
		}
	}
	return b;
}

static void table_to_lib(const struct mtable *t, struct spki_table *st, struct rtr_socket *src)
{
	spki_table_init(st, NULL);
	for (int e = 0; e < t->n; e++) {
		struct spki_record r;

		memset(&r, 0, sizeof(r));
		r.asn = t->e[e].asn;
		memcpy(r.ski, t->e[e].ski, SKI_SIZE);
		memcpy(r.spki, KEYS[t->e[e].key].spki, SPKI_SIZE);
		r.socket = src;
		spki_table_add_entry(st, &r); /* duplicates are rejected, which is fine */
	}
}

static void gen_path(struct rng *r, struct mpath *m, int *keyidx, int maxhops)
{
	memset(m, 0, sizeof(*m));
	m->n = 1 + (int)rndn(r, (uint32_t)maxhops);
	m->target_as = rndp(r, 1, 4) ? rnd32(r) : 65000 + rndn(r, 8);
	m->alg = 1;
	m->safi = rndp(r, 3, 4) ? 1 : (uint8_t)rnd32(r);
	if (rndp(r, 1, 2)) {
		m->afi = m->nlri_afi = 1;
		m->nlri_len = (uint8_t)rndn(r, 33);
	} else {
		m->afi = m->nlri_afi = 2;
		m->nlri_len = (uint8_t)rndn(r, 129);
	}
	for (int i = 0; i < 32; i++)
		m->nlri[i] = (uint8_t)rnd32(r);
	for (int j = 0; j < m->n; j++) {
		m->h[j].pcount = rndp(r, 3, 4) ? 1 : (uint8_t)rnd32(r);
		m->h[j].flags = rndp(r, 3, 4) ? 0 : (uint8_t)rnd32(r);
		m->h[j].asn = rndp(r, 1, 4) ? rnd32(r) : 64496 + rndn(r, 6);
		keyidx[j] = (int)rndn(r, NKEYS);
		if (j > 0 && rndp(r, 1, 8))
			keyidx[j] = keyidx[j - 1]; /* shared key / SKI between hops */
	}
	model_sign(m, keyidx);
}

static void add_key(struct mtable *t, uint32_t asn, const uint8_t *ski, int key)
{
	if (t->n < 3 * MAXHOPS) {
		t->e[t->n].asn = asn;
		memcpy(t->e[t->n].ski, ski, SKI_SIZE);
		t->e[t->n].key = key;
		t->n++;
	}
}

static const char *VARIANT[] = {"all-correct", "right-key-under-other-AS-only", "wrong-key-right-AS+right-key-wrong-AS", "several-keys-per-SKI", "one-SKI-missing",
				"extra-unrelated-keys"};

static void gen_table(struct rng *r, const struct mpath *m, const int *keyidx, int variant, struct mtable *t)
{
	int victim = (int)rndn(r, (uint32_t)m->n);

	t->n = 0;
	for (int j = 0; j < m->n; j++) {
		const uint8_t *ski = m->h[j].ski;

		switch (variant) {
		case 1:
			if (j == victim)
				add_key(t, m->h[j].asn ^ (1u << rndn(r, 32)), ski, keyidx[j]);
			else
				add_key(t, m->h[j].asn, ski, keyidx[j]);
			break;
		case 2:
			if (j == victim) {
				add_key(t, m->h[j].asn, ski, (keyidx[j] + 1 + (int)rndn(r, NKEYS - 1)) % NKEYS);
				add_key(t, m->h[j].asn + 1, ski, keyidx[j]);
			} else {
				add_key(t, m->h[j].asn, ski, keyidx[j]);
			}
			break;
		case 3:
			add_key(t, m->h[j].asn, ski, (keyidx[j] + 1) % NKEYS);
			add_key(t, m->h[j].asn, ski, keyidx[j]);
			add_key(t, m->h[j].asn, ski, (keyidx[j] + 2) % NKEYS);
			break;
		case 4:
			if (j != victim)
				add_key(t, m->h[j].asn, ski, keyidx[j]);
			break;
		default:
			add_key(t, m->h[j].asn, ski, keyidx[j]);
			break;
		}
	}
	if (variant == 5)
		for (int i = 0; i < 6; i++)
			add_key(t, rnd32(r), KEYS[rndn(r, NKEYS)].ski, (int)rndn(r, NKEYS));
}

static int expected_code(const struct mpath *m, const struct mtable *t, int nsigs, bool *must_be_exact)
{
	bool missing;
	int v;

	*must_be_exact = true;
	if (m->n != nsigs)
		return RTR_BGPSEC_WRONG_SEGMENT_COUNT;
	if (m->alg != 1)
		return RTR_BGPSEC_UNSUPPORTED_ALGORITHM_SUITE;
	if (m->nlri_afi != 1 && m->nlri_afi != 2)
		return RTR_BGPSEC_UNSUPPORTED_AFI;
	v = oracle_valid(m, t, &missing);
	if (missing)
		return RTR_BGPSEC_ROUTER_KEY_NOT_FOUND;
	if (v)
		return RTR_BGPSEC_VALID;
	*must_be_exact = false; /* anything but VALID */
	return RTR_BGPSEC_NOT_VALID;
}

static void judge_validate(const struct mpath *m, const struct mtable *t, const char *what, int variant, bool via_mgr)
{
	struct spki_table st;
	struct rtr_socket src;
	struct rtr_bgpsec *b = to_lib(m, m->n);
	struct rtr_mgr_config cfg;
	bool exact;
	int want = expected_code(m, t, m->n, &exact), got;
	char key[200];

	table_to_lib(t, &st, &src);
	memset(&cfg, 0, sizeof(cfg));
	cfg.spki_table = &st;
	got = via_mgr ? rtr_mgr_bgpsec_validate_as_path(b, &cfg) : rtr_bgpsec_validate_as_path(b, &st);
	CNT("c11/validations");
	cntf(1, "c11/expected/%d", want);
	if (want == RTR_BGPSEC_VALID && got != RTR_BGPSEC_VALID) {
		snprintf(key, sizeof(key), "C11:valid-path-rejected:%s:%s:got%d", what, VARIANT[variant], got);
		viol("C11", key, "independent verification accepts every hop (%d hops, NLRI afi %u len %u) but the library returned %d", m->n, m->nlri_afi, m->nlri_len, got);
	} else if (want != RTR_BGPSEC_VALID && got == RTR_BGPSEC_VALID) {
		snprintf(key, sizeof(key), "C11:VALID-but-should-not:%s:%s", what, VARIANT[variant]);
		viol("C11", key, "library returned VALID; independent verification says %d (%s, key table %s, %d hops)", want, what, VARIANT[variant], m->n);
	} else if (exact && got != want) {
		snprintf(key, sizeof(key), "C11:wrong-code:%s:%s:got%d-want%d", what, VARIANT[variant], got, want);
		viol("C11", key, "expected the specific code %d, library returned %d (%s)", want, got, what);
	}
	rtr_mgr_bgpsec_free(b);
	spki_table_free(&st);
}

/* corrupt one signed bit of the model path; returns a label */
static const char *flip_bit(struct rng *r, struct mpath *m, int field)
{
	int j = (int)rndn(r, (uint32_t)m->n);

	switch (field) {
	case 0:
		m->target_as ^= 1u << rndn(r, 32);
		return "target-as";
	case 1:
		m->h[j].pcount ^= (uint8_t)(1u << rndn(r, 8));
		return "pcount";
	case 2:
		m->h[j].flags ^= (uint8_t)(1u << rndn(r, 8));
		return "flags";
	case 3:
		m->h[j].asn ^= 1u << rndn(r, 32);
		return "asn";
	case 4:
		m->alg ^= (uint8_t)(1u << rndn(r, 8));
		return "alg";
	case 5:
		m->afi ^= (uint16_t)(1u << rndn(r, 16));
		return "afi";
	case 6:
		m->safi ^= (uint8_t)(1u << rndn(r, 8));
		return "safi";
	case 7:
		m->nlri_len ^= (uint8_t)(1u << rndn(r, 8));
		return "nlri-len";
	case 8: {
		int nb = (m->nlri_len + 7) / 8;

		if (nb == 0)
			return NULL;
		m->nlri[rndn(r, (uint32_t)nb)] ^= (uint8_t)(1u << rndn(r, 8));
		return "nlri";
	}
	case 9:
		m->h[j].ski[rndn(r, SKI_SIZE)] ^= (uint8_t)(1u << rndn(r, 8));
		return "ski";
	case 10:
		if (m->h[j].sig_len == 0)
			return NULL;
		m->h[j].sig[rndn(r, m->h[j].sig_len)] ^= (uint8_t)(1u << rndn(r, 8));
		return "signature";
	case 11:
		m->nlri_afi ^= (uint16_t)(1u << rndn(r, 16));
		return "nlri-afi";
	default:
		return NULL;
	}
}

static void run_validate_case(struct rng *r, long c, int maxhops, int nflips)
{
	struct mpath m, x;
	struct mtable t;
	int keyidx[MAXHOPS];
	int variant = (int)(c % 6);

	gen_path(r, &m, keyidx, maxhops);
	gen_table(r, &m, keyidx, variant, &t);
	judge_validate(&m, &t, "as-signed", variant, rndp(r, 1, 4));
	cntf(1, "c11/hops/%d", m.n > 8 ? 9 : m.n);
	cntf(1, "c11/key_table/%s", VARIANT[variant]);
	if (m.nlri_len == 0 || m.nlri_len == 32 || m.nlri_len == 128)
		CNT("c11/nlri_boundary_lengths");
	/* unequal segment counts */
	if (m.n > 1 && rndp(r, 1, 4)) {
		struct spki_table st;
		struct rtr_socket src;
		struct rtr_bgpsec *b = to_lib(&m, m.n - 1);
		int got;

		table_to_lib(&t, &st, &src);
		got = rtr_bgpsec_validate_as_path(b, &st);
		CNT("c11/unequal_segment_counts");
		if (got != RTR_BGPSEC_WRONG_SEGMENT_COUNT)
			viol("C11", "C11:wrong-code:segment-count", "path with %d secure-path and %d signature segments: library returned %d", m.n, m.n - 1, got);
		rtr_mgr_bgpsec_free(b);
		spki_table_free(&st);
	}
	/* single-bit corruptions, judged by the oracle (only on tables under which the path was valid) */
	if (variant == 0 || variant == 3 || variant == 5) {
		for (int f = 0; f < nflips; f++) {
			const char *lbl;

			x = m;
			lbl = flip_bit(r, &x, f % 12);
			if (!lbl)
				continue;
			judge_validate(&x, &t, lbl, variant, false);
			cntf(1, "c11/bitflip/%s", lbl);
		}
	}
	nontrivial(hmix(hbytes(11, &m, sizeof(m)), (uint64_t)variant));
	if (want_sample()) {
		char hx[64];

		sample("{\"hops\":%d,\"target_as\":%u,\"afi\":%u,\"nlri_len\":%u,\"key_table\":\"%s\",\"origin_as\":%u,\"first_sig\":\"%s\"}", m.n, m.target_as, m.afi,
		       m.nlri_len, VARIANT[variant], m.h[m.n - 1].asn, hexstr(hx, sizeof(hx), m.h[0].sig, 12));
	}
}

/* ------------------------------------------------------------------ C12 */
static void run_sign_case(struct rng *r, long c, int maxhops)
{
	struct mpath m;
	struct mtable t;
	int keyidx[MAXHOPS];
	uint8_t buf[16384];
	char key[200];
	bool ok = true;

	gen_path(r, &m, keyidx, maxhops);
	/* rebuild the path hop by hop with signatures generated by the library */
	for (int j = m.n - 1; j >= 0 && ok; j--) {
		/* hop j signs towards target (j == 0 ? target_as : h[j-1].asn): sub-path j..n-1, sigs j+1..n-1 */
		struct mpath sub;
		struct rtr_bgpsec *b;
		struct rtr_signature_seg *ns = NULL;
		int rc;

		memset(&sub, 0, sizeof(sub));
		sub = m;
		sub.n = m.n - j;
		memmove(sub.h, m.h + j, sizeof(struct hop) * (size_t)sub.n);
		sub.target_as = j == 0 ? m.target_as : m.h[j - 1].asn;
		b = to_lib(&sub, sub.n - 1);
		if ((c + j) % 4 == 1) {
			/* what this thread did with OpenSSL before is none of the signer's business: leave an entry in the
			 * thread's error queue, the way a validation of a forged update does (r = s = 0 is well-formed DER that
			 * ECDSA_verify rejects with EC_R_BAD_SIGNATURE), or any other library user in the same thread */
			static const uint8_t ZSIG[8] = {0x30, 0x06, 0x02, 0x01, 0x00, 0x02, 0x01, 0x00};
			struct mpath f = m;
			struct mtable ft;
			struct spki_table st;
			struct rtr_socket src;
			struct rtr_bgpsec *fb;

			memcpy(f.h[0].sig, ZSIG, sizeof(ZSIG));
			f.h[0].sig_len = sizeof(ZSIG);
			gen_table(r, &f, keyidx, 0, &ft);
			fb = to_lib(&f, f.n);
			table_to_lib(&ft, &st, &src);
			if (rtr_bgpsec_validate_as_path(fb, &st) == RTR_BGPSEC_VALID)
				viol("C11", "C11:VALID-but-should-not:zero-signature", "a path whose newest signature is r = s = 0 validated as VALID");
			rtr_mgr_bgpsec_free(fb);
			spki_table_free(&st);
			if (ERR_peek_error())
				CNT("c12/signings_with_entries_in_the_openssl_error_queue");
			else
				ERR_raise(ERR_LIB_EC, EC_R_BAD_SIGNATURE);
		}
		{
			/* one key file in five carries the scalar only (RFC 5915: the public key is optional); the library reads a
			 * fixed number of bytes, the rest of the buffer is zero */
			uint8_t so[PRIVLEN];
			const uint8_t *kb = KEYS[keyidx[j]].priv;

			if ((c + j) % 5 == 2) {
				static const uint8_t head[] = {0x30, 0x31, 0x02, 0x01, 0x01, 0x04, 0x20};
				static const uint8_t tail[] = {0xA0, 0x0A, 0x06, 0x08, 0x2A, 0x86, 0x48, 0xCE, 0x3D, 0x03, 0x01, 0x07};

				memset(so, 0, sizeof(so));
				memcpy(so, head, sizeof(head));
				memcpy(so + sizeof(head), kb + 7, 32);
				memcpy(so + sizeof(head) + 32, tail, sizeof(tail));
				kb = so;
				CNT("c12/signings_with_a_scalar_only_key_file");
			}
			rc = rtr_mgr_bgpsec_generate_signature(b, (uint8_t *)kb, &ns);
		}
		ERR_clear_error();
		CNT("c12/signatures_requested");
		if (rc != RTR_BGPSEC_SUCCESS || !ns) {
			snprintf(key, sizeof(key), "C12:generate-failed:rc%d", rc);
			viol("C12", key, "rtr_mgr_bgpsec_generate_signature returned %d for a valid key and a %d-hop path (NLRI afi %u len %u)", rc, sub.n, m.nlri_afi,
			     m.nlri_len);
			ok = false;
		} else {
			const unsigned char *p = ns->signature;
			ECDSA_SIG *es = d2i_ECDSA_SIG(NULL, &p, ns->sig_len);
			size_t n;

			if (!es || p != ns->signature + ns->sig_len || ns->sig_len < 8 || ns->sig_len > 72) {
				viol("C12", "C12:signature-not-wellformed-DER", "generated signature of announced length %u is not one well-formed ECDSA-Sig-Value", ns->sig_len);
				ok = false;
			}
			if (es)
				ECDSA_SIG_free(es);
			/* install it into the model and verify against the oracle's own digest */
			if (ok) {
				memcpy(m.h[j].sig, ns->signature, ns->sig_len);
				m.h[j].sig_len = ns->sig_len;
				memcpy(m.h[j].ski, KEYS[keyidx[j]].ski, SKI_SIZE);
				n = digest_input(&m, j, buf);
				CNT("c12/signatures_verified_independently");
				P256_SPKI = KEYS[keyidx[j]].spki;
				bool vok = evp_verify(KEYS[keyidx[j]].pkey, buf, n, m.h[j].sig, m.h[j].sig_len);

				P256_SPKI = NULL;
				if (!vok) {
					snprintf(key, sizeof(key), "C12:signature-does-not-verify:%s", j == m.n - 1 ? "origination" : "forwarding");
					viol("C12", key, "signature generated for hop %d of %d does not verify under the matching public key over the RFC 8205 4.2 sequence (NLRI afi %u len %u)",
					     j, m.n, m.nlri_afi, m.nlri_len);
					ok = false;
				}
			}
			rtr_mgr_bgpsec_free_signatures(ns);
		}
		rtr_mgr_bgpsec_free(b);
		cntf(1, "c12/kind/%s", j == m.n - 1 ? "origination" : "forwarding");
	}
	if (ok) {
		/* the assembled path must validate, by the library and by the oracle */
		struct spki_table st;
		struct rtr_socket src;
		struct rtr_bgpsec *b;
		bool missing;
		int got;

		gen_table(r, &m, keyidx, 0, &t);
		b = to_lib(&m, m.n);
		table_to_lib(&t, &st, &src);
		got = rtr_bgpsec_validate_as_path(b, &st);
		CNT("c12/assembled_paths_validated");
		if (got != RTR_BGPSEC_VALID || !oracle_valid(&m, &t, &missing)) {
			snprintf(key, sizeof(key), "C12:assembled-path-not-valid:lib%d", got);
			viol("C12", key, "path of %d hops built from generated signatures: library says %d, oracle says %d", m.n, got, oracle_valid(&m, &t, &missing));
		}
		rtr_mgr_bgpsec_free(b);
		spki_table_free(&st);
		nontrivial(hmix(hbytes(12, &m, sizeof(m)), 12));
	}
	/* negative cases */
	{
		struct mpath sub = m;
		struct rtr_bgpsec *b;
		struct rtr_signature_seg *ns = NULL;
		uint8_t bad[PRIVLEN];
		int rc, kind = (int)(c % 8);
		const char *lbl;
		int want;

		sub.n = m.n;
		switch (kind) {
		case 0:
			for (int i = 0; i < PRIVLEN; i++)
				bad[i] = (uint8_t)rnd32(r);
			lbl = "random-key";
			want = RTR_BGPSEC_LOAD_PRIV_KEY_ERROR;
			break;
		case 1:
			memset(bad, 0, sizeof(bad));
			memcpy(bad, KEYS[0].priv, 40 + rndn(r, 60)); /* truncated DER */
			lbl = "truncated-key";
			want = RTR_BGPSEC_LOAD_PRIV_KEY_ERROR;
			break;
		case 2: {
			/* a key on another curve */
			EC_KEY *ec = EC_KEY_new_by_curve_name(NID_secp384r1);
			unsigned char *p = NULL;
			int n;

			EC_KEY_generate_key(ec);
			n = i2d_ECPrivateKey(ec, &p);
			memset(bad, 0, sizeof(bad));
			memcpy(bad, p, n < PRIVLEN ? (size_t)n : PRIVLEN);
			OPENSSL_free(p);
			EC_KEY_free(ec);
			lbl = "wrong-curve-key";
			want = RTR_BGPSEC_LOAD_PRIV_KEY_ERROR;
			break;
		}
		case 3:
			memcpy(bad, KEYS[0].priv, PRIVLEN);
			sub.alg = (uint8_t)(2 + rndn(r, 250));
			lbl = "unsupported-suite";
			want = RTR_BGPSEC_UNSUPPORTED_ALGORITHM_SUITE;
			break;
		case 4:
			memcpy(bad, KEYS[0].priv, PRIVLEN);
			sub.nlri_afi = (uint16_t)(3 + rndn(r, 1000));
			lbl = "unsupported-afi";
			want = RTR_BGPSEC_UNSUPPORTED_AFI;
			break;
		case 6: {
			/* RFC 5915 leaves the public key in an ECPrivateKey optional: a key file with the scalar only, and the
			 * scalar outside [1, n-1] - well-formed DER, no P-256 key */
			static const uint8_t head[] = {0x30, 0x31, 0x02, 0x01, 0x01, 0x04, 0x20};
			static const uint8_t tail[] = {0xA0, 0x0A, 0x06, 0x08, 0x2A, 0x86, 0x48, 0xCE, 0x3D, 0x03, 0x01, 0x07};
			static const uint8_t order[32] = {0xFF, 0xFF, 0xFF, 0xFF, 0x00, 0x00, 0x00, 0x00, 0xFF, 0xFF, 0xFF, 0xFF, 0xFF, 0xFF, 0xFF, 0xFF,
							  0xBC, 0xE6, 0xFA, 0xAD, 0xA7, 0x17, 0x9E, 0x84, 0xF3, 0xB9, 0xCA, 0xC2, 0xFC, 0x63, 0x25, 0x51};
			uint8_t *sc = bad + sizeof(head);

			memset(bad, 0, sizeof(bad));
			memcpy(bad, head, sizeof(head));
			memcpy(bad + sizeof(head) + 32, tail, sizeof(tail));
			switch (rndn(r, 4)) {
			case 0: /* zero */
				break;
			case 1: /* the group order itself */
				memcpy(sc, order, 32);
				break;
			case 2: /* a little above the order */
				memcpy(sc, order, 32);
				sc[31] = (uint8_t)(sc[31] + 1 + rndn(r, 100));
				break;
			default: /* far above it */
				memset(sc, 0xFF, 32);
				sc[20 + rndn(r, 12)] = (uint8_t)rnd32(r);
				break;
			}
			lbl = "scalar-only-key-out-of-range";
			want = RTR_BGPSEC_LOAD_PRIV_KEY_ERROR;
			break;
		}
		case 7:
			/* well-formed key file whose public point belongs to another scalar */
			memcpy(bad, KEYS[0].priv, PRIVLEN);
			memcpy(bad + PRIVLEN - 64, KEYS[1].priv + PRIVLEN - 64, 64);
			lbl = "public-point-of-another-key";
			want = RTR_BGPSEC_LOAD_PRIV_KEY_ERROR;
			break;
		default:
			memcpy(bad, KEYS[0].priv, PRIVLEN);
			lbl = "wrong-segment-count";
			want = RTR_BGPSEC_WRONG_SEGMENT_COUNT;
			break;
		}
		/* signing needs exactly one Secure_Path Segment more than Signature Segments: any other count, in either
		 * direction, is wrong */
		int nsigs = sub.n - 1;

		if (kind == 5) {
			nsigs = (int)rndn(r, (uint32_t)sub.n); /* 0 .. n-1 */
			if (nsigs == sub.n - 1)
				nsigs = sub.n;
			cntf(1, "c12/negative/wrong-segment-count/%s", nsigs > sub.n - 1 ? "too-many-signatures" : "too-few-signatures");
		}
		b = to_lib(&sub, nsigs);
		rc = rtr_mgr_bgpsec_generate_signature(b, bad, &ns);
		CNT("c12/negative_cases");
		cntf(1, "c12/negative/%s", lbl);
		if (rc != want) {
			snprintf(key, sizeof(key), "C12:wrong-code:%s:got%d", lbl, rc);
			viol("C12", key, "%s: expected %d, library returned %d", lbl, want, rc);
		}
		if ((kind <= 2 || kind == 6 || kind == 7) && rc != RTR_BGPSEC_SUCCESS) {
			/* the answer must not depend on what was presented before: the same unloadable key again */
			struct rtr_signature_seg *ns2 = NULL;
			int rc2 = rtr_mgr_bgpsec_generate_signature(b, bad, &ns2);

			CNT("c12/negative_cases_repeated");
			if (rc2 != want) {
				snprintf(key, sizeof(key), "C12:wrong-code-on-repeat:%s:got%d", lbl, rc2);
				viol("C12", key, "%s presented a second time: expected %d again, library returned %d", lbl, want, rc2);
			}
			if (ns2 && rc2 != RTR_BGPSEC_SIGNING_ERROR)
				rtr_mgr_bgpsec_free_signatures(ns2);
		}
		if (rc != RTR_BGPSEC_SUCCESS && ns != NULL && kind >= 3 && kind <= 5) {
			snprintf(key, sizeof(key), "C12:new-signature-set-on-error:%s", lbl);
			viol("C12", key, "%s: *new_signature was modified although the call failed with %d", lbl, rc);
		}
		if (ns && rc != RTR_BGPSEC_SIGNING_ERROR)
			rtr_mgr_bgpsec_free_signatures(ns);
		rtr_mgr_bgpsec_free(b);
	}
	if (want_sample())
		sample("{\"hops\":%d,\"afi\":%u,\"nlri_len\":%u,\"generated_sig_len_hop0\":%u}", m.n, m.afi, m.nlri_len, m.h[0].sig_len);
}

/* ------------------------------------------------------------------ C11/C12 from several threads at once
 * nothing in the property ties a call to one thread: a router signs and validates for many peers concurrently.  Each
 * thread works on its own paths, keys are shared read-only; verdicts are collected per thread and reported by main. */
struct mtres {
	struct rng r;
	int maxhops, iters;
	unsigned long signed_ok, sign_rc_bad, sign_not_verifying, validated, validate_not_valid;
	int first_bad_hops, first_bad_rc;
};

static void *mt_worker(void *arg)
{
	struct mtres *w = arg;
	static __thread struct mpath m, sub;
	static __thread struct mtable t;
	int keyidx[MAXHOPS];
	uint8_t buf[16384];

	for (int it = 0; it < w->iters; it++) {
		gen_path(&w->r, &m, keyidx, w->maxhops);
		/* the newest hop is signed again by the library */
		{
			struct rtr_bgpsec *b = to_lib(&m, m.n - 1);
			struct rtr_signature_seg *ns = NULL;
			int rc = rtr_mgr_bgpsec_generate_signature(b, KEYS[keyidx[0]].priv, &ns);

			if (rc != RTR_BGPSEC_SUCCESS || !ns) {
				w->sign_rc_bad++;
				w->first_bad_rc = rc;
			} else {
				size_t n;

				sub = m;
				memcpy(sub.h[0].sig, ns->signature, ns->sig_len);
				sub.h[0].sig_len = ns->sig_len;
				n = digest_input(&sub, 0, buf);
				if (evp_verify(KEYS[keyidx[0]].pkey, buf, n, sub.h[0].sig, sub.h[0].sig_len)) {
					w->signed_ok++;
				} else {
					w->sign_not_verifying++;
					if (!w->first_bad_hops)
						w->first_bad_hops = m.n;
				}
				rtr_mgr_bgpsec_free_signatures(ns);
			}
			rtr_mgr_bgpsec_free(b);
		}
		/* and the path as signed by the oracle is validated by the library */
		{
			struct spki_table st;
			struct rtr_socket src;
			struct rtr_bgpsec *b;

			gen_table(&w->r, &m, keyidx, 0, &t);
			b = to_lib(&m, m.n);
			table_to_lib(&t, &st, &src);
			w->validated++;
			if (rtr_bgpsec_validate_as_path(b, &st) != RTR_BGPSEC_VALID) {
				w->validate_not_valid++;
				if (!w->first_bad_hops)
					w->first_bad_hops = m.n;
			}
			rtr_mgr_bgpsec_free(b);
			spki_table_free(&st);
		}
	}
	return NULL;
}

static void run_mt_case(struct rng *r, long c, int maxhops, int nthreads)
{
	pthread_t th[16];
	static struct mtres w[16];
	char key[160];

	if (nthreads > 16)
		nthreads = 16;
	memset(w, 0, sizeof(w));
	for (int i = 0; i < nthreads; i++) {
		w[i].r.s = rnd64(r);
		w[i].maxhops = maxhops;
		w[i].iters = 150;
		pthread_create(&th[i], NULL, mt_worker, &w[i]);
	}
	for (int i = 0; i < nthreads; i++)
		pthread_join(th[i], NULL);
	for (int i = 0; i < nthreads; i++) {
		cnt_add("c12/mt/signatures_verified_independently", w[i].signed_ok);
		cnt_add("c11/mt/paths_validated", w[i].validated);
		if (w[i].sign_rc_bad) {
			snprintf(key, sizeof(key), "C12:generate-failed:concurrent:rc%d", w[i].first_bad_rc);
			viol("C12", key, "%lu of %d signing calls made concurrently with %d other threads failed", w[i].sign_rc_bad, w[i].iters, nthreads - 1);
		}
		if (w[i].sign_not_verifying)
			viol("C12", "C12:signature-does-not-verify:concurrent", "%lu of %d signatures generated while %d other threads were signing / validating do not verify over the RFC 8205 4.2 sequence (first: %d hops)",
			     w[i].sign_not_verifying, w[i].iters, nthreads - 1, w[i].first_bad_hops);
		if (w[i].validate_not_valid)
			viol("C11", "C11:valid-path-rejected:concurrent", "%lu of %d correctly signed paths were not VALID while %d other threads were signing / validating (first: %d hops)",
			     w[i].validate_not_valid, w[i].iters, nthreads - 1, w[i].first_bad_hops);
	}
	CNT("c12/mt/rounds");
	nontrivial(hmix((uint64_t)c, w[0].signed_ok + 1));
}

void __wrap_lrtr_dbg(const char *frmt, ...);
void __wrap_lrtr_dbg(const char *frmt, ...)
{
	(void)frmt;
}

int main(int argc, char **argv)
{
	if (argc < 6) {
		fprintf(stderr, "usage: %s mode seed from to outfile\n", argv[0]);
		return 2;
	}
	const char *mode = argv[1];
	uint64_t seed = strtoull(argv[2], NULL, 0);
	long from = atol(argv[3]), to = atol(argv[4]);
	int maxhops = (int)argkv_l(argc, argv, "hops", 8);
	int nflips = (int)argkv_l(argc, argv, "flips", 36);

	vo_open(argv[5]);
	{
		char pth[4200];

		snprintf(pth, sizeof(pth), "%s.p256", argv[5]);
		P256F = fopen(pth, "w");
		P256_BUDGET = argkv_l(argc, argv, "p256", 2);
	}
	make_keys();
	for (long c = from; c < to; c++) {
		struct rng r;

		vo_case(c);
		rng_seed(&r, seed, (uint64_t)c);
		if (!strcmp(mode, "validate"))
			run_validate_case(&r, c, maxhops, nflips);
		else if (!strcmp(mode, "sign"))
			run_sign_case(&r, c, maxhops);
		else if (!strcmp(mode, "mt"))
			run_mt_case(&r, c, maxhops, (int)argkv_l(argc, argv, "threads", 4));
		else
			return 2;
	}
	if (P256F)
		fclose(P256F);
	vo_close();
	return 0;
}
